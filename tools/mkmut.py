#!/usr/bin/env python3
"""mkmut.py <name> <props> <expect> <file> <old> <new>: writes selftest/<name>.patch replacing old by new (once) in /repo/<file>."""
import sys, subprocess, os
name, props, expect, file, old, new = sys.argv[1:7]
p = os.path.join('/repo', file)
s = open(p).read()
assert s.count(old) >= 1, "old text not found"
open(p, 'w').write(s.replace(old, new, 1))
diff = subprocess.run(['git', '-C', '/repo', 'diff', '--', file], capture_output=True, text=True).stdout
subprocess.run(['git', '-C', '/repo', 'checkout', '--', file])
assert diff.strip(), "empty diff"
hdr = "# property: %s\n# expect: %s\n" % (props, expect)
open('/verif/selftest/%s.patch' % name, 'w').write(hdr + diff)
print("wrote", name)
