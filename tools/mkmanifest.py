#!/usr/bin/env python3
"""Regenerates /verif/MANIFEST.json from the table below (kept next to the checks it describes)."""
import json, subprocess

ENV = "GOFLAGS=-mod=mod GOPROXY=off GOSUMDB=off GOTOOLCHAIN=local"
SETUP = "cd /verif/govc && %s go build -o /verif/bin/govc ." % ENV

# id -> (technique, level text, level note, design ref)
CLAIMS = {}
NA = {}

def claim(pid, technique, text, note, ref):
    CLAIMS[pid] = (technique, text, note, ref)

def na(pid, reason):
    NA[pid] = reason

exec(open('/verif/tools/claims.py').read())

ids = [json.loads(l)['id'] for l in open('/verif/properties.jsonl')]
checks = []
for pid in ids:
    if pid in CLAIMS:
        tech, text, note, ref = CLAIMS[pid]
        checks.append({
            "property_id": pid,
            "quick_cmd": "/verif/bin/govc check -p %s -tier quick" % pid,
            "thorough_cmd": "/verif/bin/govc check -p %s -tier thorough" % pid,
            "evidence_file": "/verif/evidence/%s.json" % pid,
            "replay_cmd_template": "/verif/bin/govc replay {path}",
            "engine": "govc",
            "level_claimed": {"category": "proof", "text": text, "design_ref": ref},
            "level_note": note,
            "technique": tech,
        })
try:
    commits = subprocess.check_output(["git", "-C", "/repo", "log", "--format=%h %s"], text=True).splitlines()
    hooks = [c.split()[0] for c in commits if "verif hook" in c or c.split(" ", 1)[1].startswith("verif:")]
except Exception:
    hooks = []
m = {
    "version": 1,
    "setup_cmd": SETUP,
    "hooks": {
        "guard": "verif",
        "enable": "go/packages load of /repo's working tree with build tag verif: the only hook files are the comment-only contract files zz_contracts_verif.go (//go:build verif), mirrored under /verif/contracts",
        "baseline_off_cmd": "cd /repo && go test -vet=off -count=1 -timeout 25m ./...",
        "source_commits": hooks,
        "add_only": True,
    },
    "engines": [{
        "name": "govc", "path": "/verif/govc", "serves_properties": sorted(CLAIMS),
        "kind_free_text": "contract-based deductive verifier for Go written for this task: verification conditions generated from go/ssa (NaiveForm) of /repo's current working tree by symbolic execution with state merging and loop cutting by invariants; contracts as //@ comments in guarded files; library calls through assumed contracts (/verif/stubs); every obligation discharged by z3 5.1 / z3 4.8 / cvc5 raced; counterexamples replayed on the real code through go test -overlay",
    }],
    "checks": checks,
    "notes": "See DESIGN.md. known_findings.txt lists fixed defects and recorded findings; obligations.lock lists the obligations that discharge on the unchanged tree; selftest/ is the must-fail corpus (govc selftest); seeded/ holds independently written property-breaking changes.",
    "not_applicable": [{"property_id": p, "reason": NA[p]} for p in ids if p in NA],
}
missing = [p for p in ids if p not in CLAIMS and p not in NA]
assert not missing, missing
json.dump(m, open('/verif/MANIFEST.json', 'w'), indent=1)
print("claimed", sorted(CLAIMS), "n/a", sorted(NA))
