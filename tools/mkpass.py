import sys, subprocess, os
name, props, file, old, new = sys.argv[1:6]
p=os.path.join('/repo',file); s=open(p).read(); assert s.count(old)>=1, "old not found"
open(p,'w').write(s.replace(old,new,1))
diff=subprocess.run(['git','-C','/repo','diff','--',file],capture_output=True,text=True).stdout
subprocess.run(['git','-C','/repo','checkout','--',file]); assert diff.strip()
open('/verif/selftest/mustpass/%s.patch'%name,'w').write("# property: %s\n# expect: PASS\n"%props+diff); print("wrote",name)
