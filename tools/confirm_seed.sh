#!/bin/bash
# usage: confirm_seed.sh <prop> <k> <demo-dir-relative> <needs-text>
# Confirms in the scratch worktree /tmp/seed-<prop> that change<k>.diff compiles, passes the existing
# suite, that the demo fails with it and passes without it; then stores it under /verif/seeded/.
set -u
prop=$1; k=$2; ddir=$3; needs=$4
wt=/tmp/seed-$prop
id=${SEEDID:-${prop}_$k}
export GOFLAGS=-mod=mod GOPROXY=off GOSUMDB=off GOTOOLCHAIN=local
cd $wt || exit 2
mv out /tmp/seedout-$prop 2>/dev/null
out=/tmp/seedout-$prop
git checkout -q -- . ; find . -name zz_contracts_verif.go -delete; find . -name 'zz_demo*_test.go' -delete
log=$(mktemp)
git apply $out/change$k.diff || { echo "$id: patch does not apply"; exit 1; }
go build ./... >>$log 2>&1 || { echo "$id: does not build"; git checkout -q -- .; exit 1; }
suite=pass
go test -vet=off -count=1 ./... >>$log 2>&1 || { sleep 1; go test -vet=off -count=1 ./... >>$log 2>&1 || suite=fail; }
cp $out/demo${k}_test.go $ddir/zz_demo${k}_test.go
with=pass
go test -vet=off -count=1 -run "TestDemo${k}\$" ./$ddir >>$log 2>&1 || with=fail
git checkout -q -- . ; find . -name zz_contracts_verif.go -delete
without=pass
go test -vet=off -count=1 -run "TestDemo${k}\$" ./$ddir >>$log 2>&1 || without=fail
rm -f $ddir/zz_demo${k}_test.go
echo "$id: suite=$suite demo-with-change=$with demo-without=$without"
if [ $suite = pass ] && [ $with = fail ] && [ $without = pass ]; then
  d=/verif/seeded/$id; mkdir -p $d
  cp $out/change$k.diff $d/patch.diff
  cp $out/demo${k}_test.go $d/demo_test.go
  cp $out/notes$k.txt $d/notes.txt 2>/dev/null
  python3 - "$d" "$prop" "$ddir" "$needs" "$k" <<'PY'
import json,sys
d,prop,ddir,needs,k=sys.argv[1:6]
json.dump({"property":prop,"breaks":"see notes.txt","needs_to_manifest":needs,
 "demo":"copy demo_test.go to <repo>/%s/zz_demo%s_test.go and run: go test -vet=off -count=1 -run 'TestDemo%s$' ./%s"%(ddir,k,k,ddir),
 "confirmed":{"compiles":True,"existing_suite_passes_with_change":True,"demo_fails_with_change":True,"demo_passes_without_change":True,
   "how":"tools/confirm_seed.sh in a scratch git worktree of /repo (go test -vet=off -count=1 ./... ; demo run with and without the patch)"},
 "author":"independent sub-agent given only the property text and a scratch worktree"},open(d+"/meta.json","w"),indent=1)
PY
fi
mv $out $wt/out
rm -f $log
