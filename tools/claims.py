# -*- python -*-  (exec'd by mkmanifest.py)
PROOF = "contract-based deductive verification: VCs generated from go/ssa of the real code, discharged by z3/cvc5"

claim("C01", PROOF + "; bounded closed-loop stand-in for the float pacers (labelled bounded)",
      "Proof for the integer pacer: (ConstantPacer).Pace is verified for all Freq, Per, elapsed >= 0 and hits against the schedule contract E1-E6 "
      "(positive wait only when the next hit is not due, never more than one hit ahead or behind at release, zero = unlimited, negative = stop, stop only at the int64/uint64 horizon) "
      "with a no-overflow/no-division-by-zero obligation on every arithmetic operation, plus the closed-loop induction step as a lemma. "
      "For the sine and linear pacers panic-freedom and the zero/negative/invalid-parameter clauses are proved with floats uninterpreted; their schedule clauses are transcendental float code "
      "and are covered by a bounded closed-loop run of the real code on a virtual clock, labelled bounded and not counted as proved.",
      "Trusted: go/ssa builder, govc, solvers, stubs math/bits.Mul64/Div64, math.Round/Pow/Sin/Cos/Abs (uninterpreted), time.Duration methods. elapsed >= 0 is a precondition (call site passes time.Since). "
      "Float pacers: integer overflow of float-derived durations is not an obligation (pragma nooverflow). Known finding: sine pacer off schedule where the rate changes much within one hit interval.",
      "DESIGN.md 8/C01")

claim("C12", PROOF,
      "Proof: (*Histogram).Add is verified for every increasing bucket list and every latency not below the first bound: the result is counted in exactly one bucket, the one with lower-inclusive/upper-exclusive bounds (last bucket unbounded), "
      "all other counts unchanged (whole-view postcondition), Total incremented, buckets untouched, index safety, termination of the scan. (*Buckets).UnmarshalText: on success the stored bounds are exactly the parsed durations in order, with a zero bound prepended iff the first is positive, so every non-negative latency is covered. "
      "Renderers (MarshalJSON, Buckets.Nth, the text reporter closure) are verified for every histogram the API can produce, including 'nothing added yet': no index can go out of range, one item per bucket in order carrying that bucket's bound and count.",
      "Trusted: go/ssa builder, govc, solvers. Stated assumption: fewer than 2^64 results (Total < MaxUint64). The fmt/tabwriter output characters are library code.",
      "DESIGN.md 8/C12")

CONC = PROOF + "; ghost event automata, monitor invariant, lock discipline and rely/guarantee obligations per function; composition across goroutines by stated (trusted) lemmas"

claim("C02", CONC,
      "Per-function proofs for every schedule: (1) the attack goroutine (Attack$1 with its deferred closure) on EVERY exit path runs close(ticks); wg.Wait(); close(results); Stop() in exactly this order, never sends a tick after closing, and registers every worker with the WaitGroup before starting it; "
      "(2) the worker delivers exactly one result per received tick, the one hit returned, and calls Done once; (3) hit always returns a non-nil result, takes its sequence number inside the seqmu critical section where it is incremented by exactly one (so numbers are gap-free: monitor), and calls Stop when the targeter fails; "
      "(4) Stop, verified under interference (shared ghost flags havocked at every yield point under a monotone rely), returns true iff this call's Once function closed the stop channel.",
      "Trusted lemma (not checked): unbuffered-channel, WaitGroup and sync.Once semantics compose (1)-(4) into 'every started hit yields exactly one result before results is closed' and 'exactly one Stop caller gets true'. (5) the command's processAttack loop, verified under the same interference, writes every result it receives exactly once, the one just received, in the order received, and ends without error only when the channel is closed or a second signal arrives (results received from the attack are assumed non-nil: proved for the sender in (2)). Not covered: no goroutine left behind / liveness of shutdown (needs a fairness assumption on the consumer); the set-up code of attack() in package main (over-approximated, see C19). Stubs: sync, time, http, io.",
      "DESIGN.md 8/C02")

claim("C03", CONC,
      "Proof for all configurations: Attack starts exactly min(workers, max-workers) workers on unbuffered channels; in the attack goroutine workers never exceeds max-workers (loop invariant workers == initial + spawned <= maxWorkers), a worker is spawned only when workers < max, the non-blocking tick is attempted only below max, and every spawn is followed by the blocking select that contains the tick send; the worker handles one tick at a time (one hit, one result per tick).",
      "Trusted lemma (not checked): at most one hit in flight per worker and workers <= max imply in-flight <= max. Not covered: the timing clause 'starts as soon as one result has been consumed' (scheduler).",
      "DESIGN.md 8/C03")

claim("C04", CONC,
      "Proof against an ADVERSARIAL pacer (type contract without postcondition) and a ghost clock with lower bounds only: before every hit Pace is called exactly once with hits == number released so far and elapsed == clock - start, non-decreasing, and never after the duration has elapsed; Sleep is called with exactly the returned wait before the tick is sent; no tick is sent when the pacer said stop; every exit path shuts the attack down.",
      "Trusted: a worker starts a hit only after receiving the tick (channel causality). Stated assumptions: attack shorter than 292 years (elapsed fits int64), fewer than 2^62 hits. Stubs: time.Since/Sleep (clock never goes back; Sleep(d) lasts at least d).",
      "DESIGN.md 8/C04")

claim("C05", CONC,
      "Proof: in hit the timestamp's clock read, the read of the sequence number and its increment all lie between Lock and Unlock of the same seqmu section (lock discipline obligations on every access to attack.seq; monitor assertion at Unlock: Seq == seq at Lock, seq incremented by one, Timestamp >= timestamp issued by the previous section), so sequence order and timestamp order agree for any number of workers; "
      "Timestamp >= attack start and <= the clock when the request is handed to the transport; the deferred closure runs on every exit path: Latency >= 0, Timestamp+Latency <= now, Latency >= time spent in client.Do.",
      "Trusted: mutex mutual exclusion (the monitor invariant lastTs <= clock is assumed at Lock, proved at Unlock), monotonic clock. Stated assumption: attack shorter than 292 years.",
      "DESIGN.md 8/C05")

claim("C06", PROOF,
      "Proof over assumed net/http and io contracts (response body as an abstract stream with remaining/fault/closed ghost state): on every path of hit the result carries the attack name and the section's sequence number, the target's method and URL once the targeter succeeded, BytesIn == len(Body) (also after a read error), at most max-body bytes captured; an empty error implies a completed exchange with status in [200,400) and on completed exchanges Error is empty exactly for those codes; "
      "after a successful Do the body is closed on every path and read to its end unless a read failed; the request handed to the transport has the target's method and URL and carries X-Vegeta-Seq == the result's sequence number and X-Vegeta-Attack iff the attack is named.",
      "Trusted: stubs for http.NewRequest/Client.Do/Header.Set, io.ReadAll/LimitReader/Copy, error.Error (library error texts non-empty); trusted contract of Target.Request (header copy without canonicalisation is NOT verified yet). The redirect policy closure installed by Redirects(n): NoFollow returns http.ErrUseLastResponse, the (n+1)-th redirect is refused with a fresh error, up to n are followed. Not covered: bytes on the wire, net/http's own handling of the policy's answer, chunked option beyond the append.",
      "DESIGN.md 8/C06")

claim("C10", PROOF,
      "Proof: (*Metrics).Add, (*LatencyMetrics).Add and (*Metrics).Close are verified against contracts transcribed from the documented definitions: every aggregate (request count, status-code histogram over all keys, byte totals, latency total/max/min, earliest/latest/end, success count, error set and list) is exactly one fold step of its definition with every other key/field unchanged (whole-view postconditions + frame), "
      "under the representation invariant wf-* that Add re-establishes; Close computes every derived field (duration, wait, rate, throughput, byte means, success ratio, latency mean) as its documented expression over base fields and writes no base field, so it is idempotent and interleavable; lemmas show two fold steps commute (order independence). Percentiles are excluded (C11).",
      "Trusted: go/ssa builder, govc, solvers, stubs of time.Time/Duration methods and strconv.Itoa, trusted contract of newTdigestEstimator, type contract of the estimator interface. Floats uninterpreted (expression equality). Stated assumptions: fewer than 2^62 results, byte and latency totals fit their types, timestamps after year 1, latency >= 0. Text/JSON renderers (fmt, encoding/json) not covered.",
      "DESIGN.md 8/C10")

claim("C13", PROOF,
      "Proof over the Decoder type contract (ghost cursor dpos(d) over an abstract record sequence; a decoder fails only when exhausted): the round-robin decoder closure advances exactly one input by exactly one record in that input's own order and hands out that record, leaves every other input's cursor untouched, "
      "and returns an error only when every input is exhausted (loop invariant over the rotation, with the modular-arithmetic lemmas rot_of_tried / rot_injective / mod_add_multiple discharged separately). "
      "The commands in package main are under contract too: decoder(files) builds exactly one non-nil decoder per file, each at its first record; the report and encode loops hand every record the decoder delivers to Report.Add / Encoder.Encode exactly once, in order and exactly as decoded "
      "(the Decoder type contract only promises the exact record when the destination is the zero Result - encoding/gob leaves fields it has no data for untouched - so a reused destination fails the obligation), and finish without error only at the decoder's end of input unless interrupted by a signal.",
      "Trusted: go/ssa builder, govc, solvers; the Decoder type contract is ASSUMED for the library-backed gob/CSV/JSON decoders on valid inputs, the Report/Closer/Reporter/Encoder type contracts for their implementations. Stated assumptions: fewer than 2^64 calls; os.Stdin/os.Stdout exist and are unread; "
      "the round-robin closure is used by the commands through the Decoder type contract with its own cursor starting at 0 (assume round-robin-abstraction: the refinement 'own cursor = sum of the inputs' cursors' is argued in DESIGN, not proved). "
      "Not covered: that the metrics are insensitive to the interleaving (rests on C10's commutativity lemmas), the command closures that default the file list to stdin (>= 1 file is a precondition).",
      "DESIGN.md 8/C13")

claim("C19", PROOF,
      "Proof over uninterpreted library parsers (atoi, pdur, dsize, split, trim as spec functions): rateFlag.Set stores exactly N and D of 'N/D' (D defaults to 1s, a bare unit means one of it), 'infinity' and 0 give Freq 0, malformed counts/units are rejected; headers.Set appends the trimmed value under the case-preserved trimmed key and leaves every other key untouched; "
      "csl.Set, maxBodyFlag.Set (-1, documented sizes, overflow rejected), dnsTTLFlag.Set, connectToFlag.Set (exactly four parts, validated, appended to the source's list, other sources untouched) and resolver normalizeAddrs (':53' appended iff no colon, order kept, host must be an IP, port a uint16) each meet their documented meaning for every input string.",
      "Trusted: go/ssa builder, govc, solvers; assumed contracts of strconv.Atoi/ParseUint, time.ParseDuration, strings.Split/SplitN/TrimSpace/Contains, net.SplitHostPort/ParseIP, datasize.UnmarshalText. "
      "attack(): an unlimited rate (Freq == 0, which both 0 and infinity give) together with the default -max-workers is refused before anything is set up and before any attack starts - proved with every call attack() makes afterwards over-approximated as 'may change anything, returns anything' (pragma unknowncalls havoc) and with the panic-freedom and callee preconditions of that set-up code ASSUMED (pragma obligations contract; counts in the evidence); attack() also hands every flag value (redirects, timeout, workers, max-workers, keepalive, connections, max-connections, http2, h2c, max-body, unix-socket, chunked, dns-ttl, connect-to, session-tickets, proxy headers), the default body and headers, and rate/duration/name to the library unchanged (compared with the values at entry), draws from the library's targeter and writes with the library's encoder themselves (no wrapper in between), and never calls Stop itself (assumption `keeps *opts`: the abstracted calls do not write the options struct). "
      "Not covered: that a rate's printed form parses back (fmt.Sprintf is opaque), flag package plumbing.",
      "DESIGN.md 8/C19")

claim("C20", PROOF,
      "Proof over assumed prometheus-client contracts (ghost per-child sums, WithLabelValues requires the vector's label arity): NewMetrics creates vectors of arity 3,3,3,4; Observe adds BytesIn/BytesOut to the counters of (method,url,status), adds one sample and Latency.Seconds() to that label set's histogram, increments the failure counter of (method,url,status,error) iff the error is non-empty, and leaves every other label set of every vector untouched (whole-view postconditions).",
      "Trusted: go/ssa builder, govc, solvers; assumed contracts of the prometheus client (child identity per label tuple, Counter.Add/Inc, Observer.Observe); floats uninterpreted. Register offers all four collectors and reports any refusal by the registry; the command's result pump observes every result it receives (when metrics are on) before writing it. Not covered: cumulative bucket counts and goroutine-safety inside the client library.",
      "DESIGN.md 8/C20")

claim("C14", PROOF,
      "Proof of independence and merge safety for all inputs (frame obligations over exact append semantics: in-place when capacity allows): the HTTP and JSON targeter closures write only *tgt, their reader/scanner state and memory allocated during the call -- never the default headers' value slices, the default body, nor anything reachable from a target returned earlier; the target gets its own header map and own value slices; "
      "required-field and nil-target errors; every index/slice expression of the line parser is in range (tokens[0], tokens[1], line[0], line[1:]); the static targeter returns tgts[n mod k] without touching the target list; ReadAllTargets appends every decoded target exactly once into fresh storage. Target.Request (C06) copies header values without aliasing.",
      "Trusted: stubs for bufio.Scanner/Reader, strings, url.ParseRequestURI, os.ReadFile, regexp; trusted contracts of the generated easyjson decoder (jsonTarget.decode) and startsWithHTTPMethod. Stated precondition: the caller passes a target whose Header is nil (hit and ReadAllTargets do). "
      "Not covered: that the http line grammar (comments, @file, blank lines) is parsed exactly as documented, the defaults-first ORDER of merged values, the JSON encoder/decoder round trip -- string-language / generated-code reasoning out of reach.",
      "DESIGN.md 8/C14")

claim("C15", CONC,
      "Proof of the lock discipline and sequential specs for all schedules: static targeter -- the shared counter is only touched by one atomic add (declared `atomic`: any plain load/store is an obligation failure), the n-th draw returns tgts[n mod k] (lemma rotation_period; consecutive draws use distinct residues); "
      "JSON targeter -- the reader is only used between Lock and Unlock of its mutex (obligation at every reader call), the lock is released on every path and everything after the section touches only locals, *tgt and fresh memory; HTTP targeter -- every access to the scanner state (peeked line, bufio.Scanner) happens with mu held, Lock first and deferred Unlock on every path.",
      "Trusted lemma (not checked): mutual exclusion + the sequential contract of each critical section imply that every target is handed out exactly once and exhaustion is reported to every later caller; data races inside bufio/os are the stubs' business. Stated assumption: fewer than 2^63 draws.",
      "DESIGN.md 8/C15")

claim("C17", PROOF + "; floats as reals for lttb",
      "Proof, with floating point treated as real arithmetic in lttb.Downsample: for every count and threshold and every iterator satisfying the Iter type contract, Downsample returns the points unchanged when threshold >= count or threshold == 0, rejects thresholds 1 and 2 (and negative ones) below count with an error, and otherwise returns exactly threshold points, "
      "the first and the last point of the input included and every other output point being input point six(k) with 1 <= six(1) < six(2) < ... < count-1 (a subsequence) -- loop invariant over the bucket arithmetic, all index/overflow obligations discharged; sample always returns a point of the current bucket. "
      "labeledSeries.add buffers out-of-order results by sequence number and releases them in sequence order, each exactly once (buffer' = buffer + {seq} - released run; released as far as possible), at x = (timestamp - timestamp of seq 0)/1e6 ms; timeSeries.add pushes a point exactly once or rejects it leaving the series unchanged.",
      "Assumption: machine floating point treated as mathematical reals in Downsample (IEEE rounding of float64(i+1)*size could move a bucket boundary by one; the code's len(points)==0 fallback tolerates that, the proof does not model it). Trusted: Iter type contract (assumed for timeSeries.iter), tsz stubs, Labeler type contract. Stated: count <= 2^61, attack shorter than 292 years, each sequence number added once, timestamps follow sequence order (C05). "
      "Plot.data (floats as reals): given well-formed series (len == points pushed) it asks Downsample for every series with that series' own iterator and length, emits exactly one row per downsampled point, each row with one column per series plus x, labels[0] == \"Seconds\", and returns the rows sorted by x (sort.Sort's effect is the stated assumption 'orders by Less', with dataPoints.Less proved to compare the x column and Swap to exchange two rows; sort.Slice is assumed to permute the series). "
      "Plot.Add dispatches by attack name, creates a series on first sight and leaves all other attacks' series untouched (its callee's sequence-number preconditions are the property's domain restriction and assumed there); plotRun adds every decoded record, exactly as decoded, once and in order, closes the plot after the loop and writes it after closing. Not covered: the representation invariant of the plot across Add calls (distinct series own distinct tsz buffers; len == pushed) is a precondition of Plot.data, not proved to be maintained; WriteTo/Close/New (thin trusted contracts), the identification of timeSeries.iter's closure with the abstract lttb iterator (trusted mapping; the closure itself is proved against assumed go-tsz iterator contracts to deliver the next min(count, left) pushed points in order with x = seconds(t ms) and y = v), NaN padding of the other columns, HTML/JSON text emitted, tsz compression.",
      "DESIGN.md 8/C17")

claim("C07", PROOF,
      "Proof over assumed strconv/base64/csv/textproto contracts: the CSV encoder hands csv.Writer exactly twelve columns in the documented order and units (unix-ns timestamp, code, latency ns, bytes out, bytes in, error, base64 body, attack, seq, method, url, base64 MIME headers) and flushes once per record; the CSV decoder, given a 12-field record, assigns every column to the matching Result field with the inverse conversion; "
      "lemma csv_roundtrip_scalars derives decode(encode(x)) == x for every scalar column from the (assumed) library inverse pairs; headerBytes yields an empty column for nil headers. "
      "The generated easyjson codec for results is under contract as well: the encoder writes exactly the twelve documented keys in order, each followed by the field of the same name with the documented representation (latency as integer nanoseconds, timestamp RFC 3339, body base64); the decoder stores every documented key into the field of the same name and writes nothing else.",
      "Trusted: stubs and inverse-pair axioms of strconv.Format*/Parse*, base64, csv.Reader/Writer, textproto, http.Header.Write. Not covered: gob (reflection inside encoding/gob), the JSON token-level round trip (jwriter's output re-read by jlexer: library internals; only key/field pairing, order and representations are proved), that header MIME serialisation round-trips, 'fields the Result type gains later'.",
      "DESIGN.md 8/C07")

claim("C09", PROOF,
      "Proof: the JSON decoder closure hands only complete newline-terminated lines to the unmarshaller; when the line read fails (stream cut inside the last record) it returns the error before touching *r, so a torn record is never decoded; at most one record per call. The CSV and JSON encoder closures emit exactly one whole record (JSON: record, newline, one DumpTo; CSV: one Write, one Flush) per call, so every point between calls is a record boundary; the CSV decoder requires 12 fields per record (FieldsPerRecord as object invariant).",
      "Trusted: stubs for bufio.Reader.ReadBytes, csv.Reader/Writer, jwriter/jlexer. Not covered: gob's length framing and csv.Reader's behaviour on a torn record (library internals).",
      "DESIGN.md 8/C09")

claim("C08", PROOF,
      "Proof over a stream-position model of the io readers (assumed contracts of bytes.Buffer/Reader, io.TeeReader, io.MultiReader with contiguity as precondition): in DecoderFor the buffer always holds exactly the bytes consumed from the input since entry (loop invariant), every trial decoder and the returned decoder are built on a reader that delivers the stream from the position the input had at entry and continues to its end -- nothing consumed while sniffing is lost or replayed.",
      "Trusted: the reader stubs and the Decoder / DecoderFactory type contracts (a trial decode reads only forward and through the tee). DecoderFor returns a decoder only for the format whose trial decoded a record without error (ghost trialOK), so input that no trial accepts yields no decoder; the encode command loop encodes every decoded record exactly once, in order, from a zero destination. Not covered: the acceptance behaviour of the three library decoders themselves (which inputs a trial accepts), transcoding chains (rests on C07's per-codec contracts).",
      "DESIGN.md 8/C08")

claim("C16", PROOF + " (automatic safety obligations + termination variants)",
      "Proof of panic-freedom and termination for every input for the in-repo parser code: every index, slice, nil-dereference, nil-map-write, division and type-assertion site and every explicit panic in Buckets.UnmarshalText, the HTTP and JSON targeter closures (with the peeking scanner and startsWithHTTPMethod), the generated easyjson decoders for results and targets, the CSV/JSON/gob decoder closures, DecoderFor, the round-robin decoder, rateFlag/headers/csl/maxBodyFlag/dnsTTLFlag/connectToFlag.Set, normalizeAddrs and resolver.address carries a discharged obligation under the weakest precondition; "
      "every loop has a variant: range loops by index, input-consuming loops by the ghost amount of unread input (scanner lines incl. the peeked line, reader bytes, lexer tokens), which the library stubs decrease on every successful read.",
      "Trusted / not covered: panics, hangs and allocation inside encoding/gob, encoding/csv, easyjson's jlexer, bufio, regexp, net, datasize (assumed total, with the stated progress facts); memory proportional to input; wall-clock bounds. Evidence lists every library entry point reached (stubs).",
      "DESIGN.md 8/C16")

claim("C18", CONC,
      "Proof for all inputs/schedules: firstOfEachIPFamily returns at most one address per IP family, each the first of its family, and modifies nothing (frame: no element of the cache-owned input slice changes); the DNSCaching dial function never writes to the slice handed out by the DNS cache -- also not inside the shuffle callback, which is executed symbolically for arbitrary indices -- shuffles before picking, uses the random generator only with rngMu held, dials JoinHostPort(picked ip, original port) and receives exactly one result per started dial; "
      "the ConnectTo dial function forwards unmapped addresses unchanged, sends the n-th dial of a mapped address to addrs[n mod k] (lemma rotation_period: even rotation) and touches the rotation counter only through one atomic add (declared atomic: any plain access fails a lock obligation); the custom resolver's address() rotates the same way.",
      "Trusted: stubs for net.ParseIP/To4/SplitHostPort/JoinHostPort, dnscache.LookupHost (returns cache-owned, non-fresh memory), math/rand.Shuffle (calls swap with in-range indices any number of times), context, sync/atomic; composition lemma for concurrent dials (mutex/atomic semantics). "
      "Every address the dial closure dials is one LookupHost returned for that host (resolvedfor, an abstract predicate the LookupHost stub establishes for every returned element; invariant across the copy, the shuffle - callback invariant: holds on entry, one arbitrary swap from an arbitrary state satisfying it preserves it - and firstOfEachIPFamily). In the command, -dns-ttl and -connect-to reach DNSCaching/ConnectTo unchanged. Not covered: that the shuffle is a permutation (no address is lost), uniformity of math/rand, dnscache internals, happy-eyeballs timing, the order of option composition in the command.",
      "DESIGN.md 8/C18")

for p in []:
    na(p, "check not built yet (contracts planned in DESIGN.md section 8; engine features pending)")
na("C11", "not applicable to contract-based verification: the property is the numerical accuracy of the external floating-point t-digest estimator (github.com/influxdata/tdigest); the in-repo code is three one-line delegations, so a contract could only restate an assumed contract of the library, which is the property itself (DESIGN.md section 9)")
