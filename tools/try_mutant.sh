#!/bin/bash
# usage: try_mutant.sh <patch> <property>...   applies the patch to /repo, runs the quick checks, reverts.
set -u
patch=$1; shift
cd /repo
if [ -n "$(git status --porcelain)" ]; then echo "repo not clean"; exit 2; fi
git apply "$patch" || { echo "patch does not apply"; exit 2; }
export GOFLAGS=-mod=mod GOPROXY=off GOSUMDB=off GOTOOLCHAIN=local
go build ./... || { git checkout -- .; echo "does not build"; exit 2; }
for p in "$@"; do
  /verif/bin/govc check -p $p -out /tmp/mutant-out 2>&1 | grep -E "VIOLATION|obligation |^property|KNOWN" | cut -c1-260
done
git checkout -- .
rm -rf /tmp/mutant-out
