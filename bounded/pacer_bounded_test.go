package vegeta

// BOUNDED stand-in for the schedule clauses of the float pacers (property C01). Injected into
// package lib with `go test -overlay` by govc; not part of the repository. It is a bounded check:
// a closed-loop run of the real Pace methods on a virtual clock over a grid of parameters plus
// seeded random ones; it is labelled bounded and never counted as proved.

import (
	"fmt"
	"math"
	"math/rand"
	"os"
	"strconv"
	"testing"
	"time"
)

type schedPacer struct {
	name  string
	class string
	p     Pacer
	s     func(t time.Duration) float64 // declared cumulative schedule
	maxNs float64                       // maximal rate in hits per ns (quantisation slack)
	behind bool                         // the "never more than one behind" clause applies
	coarse bool
}

func sineSched(sp SinePacer) func(time.Duration) float64 {
	m := float64(sp.Mean.Freq) / float64(sp.Mean.Per)
	a := float64(sp.Amp.Freq) / float64(sp.Amp.Per)
	per := float64(sp.Period)
	return func(t time.Duration) float64 {
		if t <= 0 {
			return 0
		}
		return m*float64(t) + (a*per/(2*math.Pi))*(math.Cos(sp.StartAt)-math.Cos(sp.StartAt+2*math.Pi*float64(t)/per))
	}
}

func linSched(lp LinearPacer) func(time.Duration) float64 {
	b := float64(lp.StartAt.Freq) / float64(lp.StartAt.Per) * 1e9
	return func(t time.Duration) float64 {
		if t <= 0 {
			return 0
		}
		x := t.Seconds()
		return lp.Slope*x*x/2 + b*x
	}
}

func ratioClass(r float64) string {
	switch {
	case r >= 0.999:
		return "amp/mean>=0.999"
	case r >= 0.99:
		return "amp/mean>=0.99"
	default:
		return "amp/mean<0.99"
	}
}

func TestGovcBoundedPacers(t *testing.T) {
	tier := os.Getenv("VERIF_TIER")
	seed, _ := strconv.ParseInt(os.Getenv("VERIF_SEED"), 10, 64)
	steps, nrand := 2000, 120
	if tier == "thorough" {
		steps, nrand = 50000, 2000
	}
	rng := rand.New(rand.NewSource(seed))
	var ps []schedPacer
	fromRandom := false
	addSine := func(sp SinePacer) {
		r := (float64(sp.Amp.Freq) / float64(sp.Amp.Per)) / (float64(sp.Mean.Freq) / float64(sp.Mean.Per))
		m := float64(sp.Mean.Freq)/float64(sp.Mean.Per) + float64(sp.Amp.Freq)/float64(sp.Amp.Per)
		// hits per period at the trough rate: how much the rate can change within one inter-hit interval
		hpp := (float64(sp.Mean.Freq)/float64(sp.Mean.Per) - float64(sp.Amp.Freq)/float64(sp.Amp.Per)) * float64(sp.Period)
		class := "sine/" + ratioClass(r) + "/trough-hits-per-period>=1000"
		coarse := false
		if hpp < 1000 {
			// one regime, one numerical defect: the five fixed-point iterations of SinePacer.Pace do not
			// converge where the rate changes much within one inter-hit interval
			class = "sine/coarse:" + fmt.Sprintf("%v", sp)
			coarse = true
			if fromRandom {
				return // the coarse regime is explored on the deterministic grid only (known findings are listed per configuration)
			}
		}
		ps = append(ps, schedPacer{name: fmt.Sprintf("%v", sp), class: class, p: sp, s: sineSched(sp), maxNs: m, behind: true, coarse: coarse})
	}
	addLin := func(lp LinearPacer) {
		cl := "linear/slope>=0"
		if lp.Slope < 0 {
			cl = "linear/slope<0"
		}
		b := float64(lp.StartAt.Freq) / float64(lp.StartAt.Per)
		ps = append(ps, schedPacer{name: fmt.Sprintf("Linear{%v %g}", lp.StartAt, lp.Slope), class: cl, p: lp, s: linSched(lp), maxNs: b + math.Abs(lp.Slope)*1e-9*3600})
	}
	periods := []time.Duration{time.Millisecond, 100 * time.Millisecond, 10 * time.Second, 20 * time.Minute, time.Hour}
	means := []int{1, 10, 1000, 100000, 1000000}
	ratios := []float64{0, 0.1, 0.5, 0.9, 0.99, 0.999, 1 - 1.0/(1<<20)}
	offs := []float64{MeanUp, Peak, MeanDown, Trough}
	for _, per := range periods {
		for _, mean := range means {
			for ri, ra := range ratios {
				o := offs[(ri+mean)%4]
				// amplitude as a rate over a finer unit so that ratios just below 1 are exact
				amp := Rate{Freq: int(ra * float64(mean) * 1048576), Per: time.Second * 1048576 / 1}
				if amp.Per <= 0 {
					continue
				}
				addSine(SinePacer{Period: per, Mean: Rate{Freq: mean, Per: time.Second}, Amp: amp, StartAt: o})
			}
		}
	}
	for _, start := range []int{1, 10, 1000, 100000} {
		for _, slope := range []float64{0, 0.5, 10, 1000, -0.5, -10, -1000} {
			addLin(LinearPacer{StartAt: Rate{Freq: start, Per: time.Second}, Slope: slope})
		}
	}
	// start rates given over other units than one second (the schedule must not depend on the unit)
	for _, st := range []Rate{{Freq: 10, Per: 100 * time.Millisecond}, {Freq: 6000, Per: time.Minute}, {Freq: 3, Per: 7 * time.Millisecond}, {Freq: 360000, Per: time.Hour}} {
		for _, slope := range []float64{0, 5, 10, -0.5} {
			addLin(LinearPacer{StartAt: st, Slope: slope})
		}
	}
	// slow, deep sines (rate changes a lot within one hit interval)
	for _, o := range []float64{MeanUp, Peak, MeanDown, Trough, 4.0} {
		addSine(SinePacer{Period: time.Second, Mean: Rate{Freq: 1, Per: time.Second}, Amp: Rate{Freq: 9, Per: 10 * time.Second}, StartAt: o})
		addSine(SinePacer{Period: 10 * time.Second, Mean: Rate{Freq: 5, Per: time.Second}, Amp: Rate{Freq: 4, Per: time.Second}, StartAt: o})
	}
	fromRandom = true
	for i := 0; i < nrand; i++ {
		mean := 1 + rng.Intn(1000000)
		ra := ratios[rng.Intn(len(ratios))] * rng.Float64()
		per := time.Duration(1e6 + rng.Int63n(3600e9))
		addSine(SinePacer{Period: per, Mean: Rate{Freq: mean, Per: time.Second}, Amp: Rate{Freq: int(ra * float64(mean) * 1024), Per: 1024 * time.Second}, StartAt: rng.Float64() * 2 * math.Pi})
		addLin(LinearPacer{StartAt: Rate{Freq: 1 + rng.Intn(100000), Per: time.Second}, Slope: (rng.Float64()*2 - 1) * 1000})
	}
	const eps = 1e-3
	cases, calls := 0, 0
	seen := map[string]bool{}
	count := map[string]int{}
	total := map[string]int{}
	for _, sp := range ps {
		for _, stall := range []string{"none", "random", "one-long"} {
			if sp.coarse && stall == "random" {
				continue // keep the coarse regime deterministic
			}
			cases++
			total[sp.class]++
			bad := map[string]bool{}
			defer func() {}()
			var tm time.Duration
			var h uint64
			for step := 0; step < steps; step++ {
				wait, stop := sp.p.Pace(tm, h)
				calls++
				if stop {
					break
				}
				sNow := sp.s(tm)
				pastZero := false
				if sp.class == "linear/slope<0" {
					// beyond the instant where the declared rate reaches zero the schedule is not defined
					lp := sp.p.(LinearPacer)
					if lp.Rate(tm) <= 0 {
						// the declared rate has reached zero: nothing more is due, ever; a pacer that does not
						// stop here goes on releasing hits against a schedule that has none left
						key := sp.class + "/no-stop-after-the-rate-reached-zero"
						if !bad[key] {
							bad[key] = true
							count[key]++
						}
						if !seen[key] {
							seen[key] = true
							fmt.Printf("BOUNDED-VIOLATION %s :: %s stall=%s t=%v hits=%d rate=%.3f/s (consulted after its rate reached zero, the pacer neither stopped: wait=%v)\n", key, sp.name, stall, tm, h, lp.Rate(tm), wait)
						}
						break
					}
					pastZero = lp.Rate(tm+wait) <= 0 // this release crosses the zero-rate instant: not compared, but the next consult must stop
				}
				tol := eps + math.Abs(sNow)*1e-9
				if wait > 0 && sNow >= float64(h+1)+tol {
					key := sp.class + "/wait-while-behind"
					if !bad[key] {
						bad[key] = true
						count[key]++
					}
					if !seen[key] {
						seen[key] = true
						fmt.Printf("BOUNDED-VIOLATION %s :: %s stall=%s t=%v hits=%d wait=%v schedule=%.6f (a positive wait although hit %d is already due)\n", key, sp.name, stall, tm, h, wait, sNow, h+1)
					}
				}
				if wait > 0 {
					tm += wait
				}
				stalled := false
				switch stall {
				case "random":
					if rng.Intn(4) == 0 {
						tm += time.Duration(rng.Int63n(int64(50 * time.Millisecond)))
						stalled = true
					}
				case "one-long":
					if step == steps/3 {
						tm += 3 * time.Second
						stalled = true
					}
				}
				if tm < 0 {
					break // virtual clock overflow
				}
				if sp.class == "linear/slope<0" && sp.p.(LinearPacer).Rate(tm) <= 0 {
					pastZero = true // also when an injected stall carried the clock past the zero-rate instant
				}
				h++
				if pastZero {
					continue
				}
				sRel := sp.s(tm)
				tol = eps + math.Abs(sRel)*1e-9
				if float64(h) > sRel+1+tol {
					key := sp.class + "/ahead-by-more-than-one"
					if sp.coarse {
						key = sp.class + "/ahead"
					}
					if !bad[key] {
						bad[key] = true
						count[key]++
					}
					if !seen[key] {
						seen[key] = true
						fmt.Printf("BOUNDED-VIOLATION %s :: %s stall=%s t=%v hits=%d schedule=%.6f (count exceeds the schedule by %.3f hits)\n", key, sp.name, stall, tm, h, sRel, float64(h)-sRel)
					}
				}
				if sp.behind && !stalled && wait > 0 && stall == "none" {
					slack := 1 + float64(h)*sp.maxNs + tol
					if sRel-float64(h) > slack {
						key := sp.class + "/behind-by-more-than-one"
						if sp.coarse {
							key = sp.class + "/behind"
						}
						if !bad[key] {
							bad[key] = true
							count[key]++
						}
						if !seen[key] {
							seen[key] = true
							fmt.Printf("BOUNDED-VIOLATION %s :: %s stall=%s t=%v hits=%d schedule=%.6f (count is %.3f hits behind at a release instant)\n", key, sp.name, stall, tm, h, sRel, sRel-float64(h))
						}
					}
				}
			}
		}
	}
	for k, v := range total {
		fmt.Printf("BOUNDED-CLASS %s runs=%d\n", k, v)
	}
	for k, v := range count {
		fmt.Printf("BOUNDED-COUNT %s runs-violating=%d\n", k, v)
	}
	fmt.Printf("BOUNDED-SUMMARY configurations=%d closed_loop_runs=%d pace_calls=%d steps_per_run=%d seed=%d\n", len(ps), cases, calls, steps, seed)
}
