package main

// Replay of solver counterexamples against the real code: an in-package test is injected
// with `go test -overlay` (nothing is written into /repo), the real function is called with the
// model's inputs and a concrete, property-level oracle is evaluated: "panicked" for the safety
// obligations, the postconditions evaluated in arbitrary precision for the functional ones.

import (
	"bytes"
	"context"
	"encoding/json"
	"fmt"
	"go/types"
	"os"
	"os/exec"
	"path/filepath"
	"strings"
	"time"

	"golang.org/x/tools/go/ssa"
)

type replayResult struct {
	Confirmed bool   `json:"confirmed"`
	Mode      string `json:"mode"`
	Note      string `json:"note,omitempty"`
	Test      string `json:"test_source,omitempty"`
	Cmd       string `json:"cmd,omitempty"`
	Output    string `json:"output,omitempty"`
}

func pkgDir(repo, pkgPath string) string {
	rel := strings.TrimPrefix(strings.TrimPrefix(pkgPath, modPrefix), "/")
	return filepath.Join(repo, rel)
}

func replayObligation(ld *Loader, specs *Specs, fr *FuncResult, o *Obligation, repo string) replayResult {
	if fr == nil || o == nil {
		return replayResult{Mode: "none", Note: "no obligation"}
	}
	fn := ld.funcs[fullKey(fr.Pkg, fr.Key)]
	if fn == nil {
		return replayResult{Mode: "none", Note: "function not found"}
	}
	if o.Model == nil {
		// no counterexample from the solver (unknown/timeout on a quantified goal): probe the real function
		// with inputs built from the contract's own string literals; only a failing probe is reported
		note := "the solver gave no model for this obligation (unknown/timeout or quantified goal)"
		if ms := probeModels(fn, fr); len(ms) > 0 {
			if src, n2 := genericReplay(ld, specs, fn, fr, o, ms, fmt.Sprintf("%d probe inputs built from the contract's literals (the solver gave no model)", len(ms))); src != "" {
				r := runReplayTest(repo, fr.Pkg, fn, src, n2)
				if r.Confirmed {
					return r
				}
				r.Note = note + "; probing with the contract's literals found no failing input"
				return r
			}
		}
		return replayResult{Mode: "none", Note: note}
	}
	model := map[string]string{}
	for k, v := range o.Model {
		if lbl := fr.ParamSyms[k]; lbl != "" {
			model[lbl] = v
		}
	}
	// model value of a string literal -> the literal (so that inputs equal to a literal replay as that literal)
	for k, v := range o.Model {
		if lit, ok := fr.StrNames[k]; ok {
			model["strlit:"+v] = lit
		}
	}
	if tmpl, ok := replayTemplates[fr.Key]; ok {
		src, note := tmpl(fn, fr, o, model)
		if src == "" {
			return replayResult{Mode: "template", Note: note}
		}
		return runReplayTest(repo, fr.Pkg, fn, src, "template: "+note)
	}
	src, note := genericScalarReplay(ld, fn, fr, o, model)
	if src != "" {
		return runReplayTest(repo, fr.Pkg, fn, src, "generic scalar replay")
	}
	src, note2 := genericReplay(ld, specs, fn, fr, o, []map[string]string{model}, "the solver's counterexample")
	if src == "" {
		return replayResult{Mode: "none", Note: note + "; " + note2}
	}
	return runReplayTest(repo, fr.Pkg, fn, src, note2)
}

func runReplayTest(repo, pkgPath string, fn *ssa.Function, src, mode string) replayResult {
	dir := pkgDir(repo, pkgPath)
	tmp, err := os.MkdirTemp("", "govc-replay-")
	if err != nil {
		return replayResult{Mode: mode, Note: err.Error()}
	}
	defer os.RemoveAll(tmp)
	testFile := filepath.Join(tmp, "zz_govc_replay_test.go")
	os.WriteFile(testFile, []byte(src), 0o644)
	ov := map[string]map[string]string{"Replace": {filepath.Join(dir, "zz_govc_replay_test.go"): testFile}}
	ovb, _ := json.Marshal(ov)
	ovFile := filepath.Join(tmp, "overlay.json")
	os.WriteFile(ovFile, ovb, 0o644)
	ctx, cancel := context.WithTimeout(context.Background(), 120*time.Second)
	defer cancel()
	cmd := exec.CommandContext(ctx, "go", "test", "-overlay", ovFile, "-v", "-vet=off", "-count=1", "-timeout", "60s", "-run", "^TestGovcReplay$", ".")
	cmd.Dir = dir
	cmd.Env = append(os.Environ(), "GOFLAGS=-mod=mod", "GOPROXY=off", "GOSUMDB=off", "GOTOOLCHAIN=local")
	var out bytes.Buffer
	cmd.Stdout, cmd.Stderr = &out, &out
	_ = cmd.Run()
	res := replayResult{Mode: mode, Test: src, Cmd: "cd " + dir + " && go test -overlay <overlay.json> -vet=off -count=1 -timeout 60s -run '^TestGovcReplay$' .", Output: truncate(out.String(), 6000)}
	for _, l := range strings.Split(out.String(), "\n") {
		if strings.HasPrefix(l, "REPLAY-RESULT: violated") || strings.HasPrefix(l, "REPLAY-RESULT: panic") {
			res.Confirmed = true
		}
	}
	return res
}

// ---------------------------------------------------------------------------
// generic replay for functions over scalars (and structs of scalars)

func scalarType(t types.Type) bool {
	switch u := t.Underlying().(type) {
	case *types.Basic:
		return u.Info()&(types.IsInteger|types.IsBoolean) != 0
	case *types.Struct:
		if !transparentStruct(t) {
			return false
		}
		for i := 0; i < u.NumFields(); i++ {
			if !scalarType(u.Field(i).Type()) {
				return false
			}
		}
		return true
	}
	return false
}

func goLit(t types.Type, label string, model map[string]string, q types.Qualifier) string {
	switch u := t.Underlying().(type) {
	case *types.Basic:
		v := model[label]
		if u.Info()&types.IsBoolean != 0 {
			if v == "true" {
				return "true"
			}
			return "false"
		}
		if v == "" {
			v = "0"
		}
		return fmt.Sprintf("%s(%s)", types.TypeString(t, q), v)
	case *types.Struct:
		var fs []string
		for i := 0; i < u.NumFields(); i++ {
			f := u.Field(i)
			fs = append(fs, fmt.Sprintf("%s: %s", f.Name(), goLit(f.Type(), label+"."+f.Name(), model, q)))
		}
		return fmt.Sprintf("%s{%s}", types.TypeString(t, q), strings.Join(fs, ", "))
	}
	return "nil"
}

// toBig renders Go code converting expression e of type t to *big.Int / bool.
func toBig(e string, t types.Type) string {
	b, ok := t.Underlying().(*types.Basic)
	if !ok {
		return e
	}
	if b.Info()&types.IsBoolean != 0 {
		return e
	}
	if b.Info()&types.IsUnsigned != 0 {
		return fmt.Sprintf("new(big.Int).SetUint64(uint64(%s))", e)
	}
	return fmt.Sprintf("big.NewInt(int64(%s))", e)
}

type goEnv struct {
	vars map[string]struct {
		code string
		t    types.Type
	}
}

func (g *goEnv) compile(e Expr) (code string, boolean bool, err error) {
	switch x := e.(type) {
	case EInt:
		return fmt.Sprintf("bigS(%q)", x.Val), false, nil
	case EBool:
		return fmt.Sprint(x.Val), true, nil
	case EIdent:
		if v, ok := g.vars[x.Name]; ok {
			if isBool(v.t) {
				return v.code, true, nil
			}
			return toBig(v.code, v.t), false, nil
		}
		switch x.Name {
		case "MaxInt64":
			return `bigS("9223372036854775807")`, false, nil
		case "MinInt64":
			return `bigS("-9223372036854775808")`, false, nil
		case "MaxUint64":
			return `bigS("18446744073709551615")`, false, nil
		}
		return "", false, fmt.Errorf("identifier %s", x.Name)
	case ESel:
		id, ok := x.X.(EIdent)
		if !ok {
			return "", false, fmt.Errorf("nested selector")
		}
		v, ok := g.vars[id.Name]
		if !ok {
			return "", false, fmt.Errorf("identifier %s", id.Name)
		}
		st, ok := v.t.Underlying().(*types.Struct)
		if !ok {
			return "", false, fmt.Errorf("selector on non-struct")
		}
		idx, ft := fieldIndex(st, x.Name)
		if idx == nil {
			return "", false, fmt.Errorf("no field %s", x.Name)
		}
		c := v.code + "." + x.Name
		if isBool(ft) {
			return c, true, nil
		}
		return toBig(c, ft), false, nil
	case EUn:
		c, b, err := g.compile(x.X)
		if err != nil {
			return "", false, err
		}
		if x.Op == "!" {
			return "!(" + c + ")", true, nil
		}
		_ = b
		return "new(big.Int).Neg(" + c + ")", false, nil
	case ECond:
		c, _, err := g.compile(x.C)
		if err != nil {
			return "", false, err
		}
		a, ab, err := g.compile(x.A)
		if err != nil {
			return "", false, err
		}
		b, _, err := g.compile(x.B)
		if err != nil {
			return "", false, err
		}
		if ab {
			return fmt.Sprintf("iteB(%s, %s, %s)", c, a, b), true, nil
		}
		return fmt.Sprintf("iteI(%s, %s, %s)", c, a, b), false, nil
	case ECall:
		id, ok := x.Fun.(EIdent)
		if !ok {
			return "", false, fmt.Errorf("call")
		}
		if (id.Name == "max" || id.Name == "min") && len(x.Args) == 2 {
			a, _, err := g.compile(x.Args[0])
			if err != nil {
				return "", false, err
			}
			b, _, err := g.compile(x.Args[1])
			if err != nil {
				return "", false, err
			}
			return fmt.Sprintf("%sI(%s, %s)", id.Name, a, b), false, nil
		}
		return "", false, fmt.Errorf("call %s", id.Name)
	case EBin:
		l, lb, err := g.compile(x.L)
		if err != nil {
			return "", false, err
		}
		r, _, err := g.compile(x.R)
		if err != nil {
			return "", false, err
		}
		switch x.Op {
		case "&&":
			return "(" + l + " && " + r + ")", true, nil
		case "||":
			return "(" + l + " || " + r + ")", true, nil
		case "==>":
			return "(!(" + l + ") || " + r + ")", true, nil
		case "<==>":
			return "((" + l + ") == (" + r + "))", true, nil
		case "==", "!=":
			if lb {
				return fmt.Sprintf("((%s) %s (%s))", l, x.Op, r), true, nil
			}
			return fmt.Sprintf("(%s.Cmp(%s) %s 0)", l, r, x.Op), true, nil
		case "<", "<=", ">", ">=":
			return fmt.Sprintf("(%s.Cmp(%s) %s 0)", l, r, x.Op), true, nil
		case "+":
			return fmt.Sprintf("new(big.Int).Add(%s, %s)", l, r), false, nil
		case "-":
			return fmt.Sprintf("new(big.Int).Sub(%s, %s)", l, r), false, nil
		case "*":
			return fmt.Sprintf("new(big.Int).Mul(%s, %s)", l, r), false, nil
		case "/":
			return fmt.Sprintf("new(big.Int).Quo(%s, %s)", l, r), false, nil
		case "%":
			return fmt.Sprintf("new(big.Int).Rem(%s, %s)", l, r), false, nil
		}
	}
	return "", false, fmt.Errorf("unsupported expression %T", e)
}

const replayHelpers = `
func bigS(s string) *big.Int { b, _ := new(big.Int).SetString(s, 0); return b }
func iteI(c bool, a, b *big.Int) *big.Int { if c { return a }; return b }
func iteB(c bool, a, b bool) bool { if c { return a }; return b }
func maxI(a, b *big.Int) *big.Int { if a.Cmp(b) >= 0 { return a }; return b }
func minI(a, b *big.Int) *big.Int { if a.Cmp(b) <= 0 { return a }; return b }
`

func genericScalarReplay(ld *Loader, fn *ssa.Function, fr *FuncResult, o *Obligation, model map[string]string) (string, string) {
	pkg := pkgOfFn(fn)
	if pkg == nil || fn.Parent() != nil {
		return "", "closures need a replay template"
	}
	q := func(p *types.Package) string {
		if p == pkg {
			return ""
		}
		return p.Name()
	}
	sig := fn.Signature
	genv := &goEnv{vars: map[string]struct {
		code string
		t    types.Type
	}{}}
	var decls []string
	imports := map[string]bool{"fmt": true, "math/big": true, "testing": true}
	noteImports := func(t types.Type) {
		s := types.TypeString(t, func(p *types.Package) string { return p.Path() })
		if strings.Contains(s, "time.") {
			imports["time"] = true
		}
	}
	var argNames []string
	for i, p := range fn.Params {
		if !scalarType(p.Type()) {
			return "", "parameter " + p.Name() + " is not a scalar: needs a replay template"
		}
		name := fmt.Sprintf("a%d", i)
		decls = append(decls, fmt.Sprintf("\t%s := %s", name, goLit(p.Type(), p.Name(), model, q)))
		genv.vars[p.Name()] = struct {
			code string
			t    types.Type
		}{name, p.Type()}
		noteImports(p.Type())
		argNames = append(argNames, name)
	}
	call := ""
	if sig.Recv() != nil {
		call = fmt.Sprintf("%s.%s(%s)", argNames[0], fn.Name(), strings.Join(argNames[1:], ", "))
	} else {
		call = fmt.Sprintf("%s(%s)", fn.Name(), strings.Join(argNames, ", "))
	}
	var resNames []string
	fc := fr.Contract
	for i := 0; i < sig.Results().Len(); i++ {
		rt := sig.Results().At(i).Type()
		if !scalarType(rt) {
			return "", "result is not a scalar: needs a replay template"
		}
		rn := fmt.Sprintf("r%d", i)
		resNames = append(resNames, rn)
		n := sig.Results().At(i).Name()
		if fc != nil && i < len(fc.Returns) {
			n = fc.Returns[i]
		}
		if n != "" {
			genv.vars[n] = struct {
				code string
				t    types.Type
			}{rn, rt}
		}
		if sig.Results().Len() == 1 {
			genv.vars["result"] = struct {
				code string
				t    types.Type
			}{rn, rt}
		}
	}
	var checks []string
	if fc != nil {
		for i, e := range fc.Ensures {
			c, isB, err := genv.compile(e.E)
			if err != nil || !isB {
				continue
			}
			checks = append(checks, fmt.Sprintf("\tif !(%s) {\n\t\tfmt.Printf(\"REPLAY-RESULT: violated postcondition %%s\\n\", %q)\n\t\tbad = true\n\t}", c, clauseName(e, i)+": "+e.Text))
		}
	}
	var sb strings.Builder
	fmt.Fprintf(&sb, "package %s\n\nimport (\n", pkg.Name())
	for _, im := range sortedKeys(imports) {
		fmt.Fprintf(&sb, "\t%q\n", im)
	}
	sb.WriteString(")\n")
	sb.WriteString(replayHelpers)
	sb.WriteString("\nvar _ = big.NewInt\n\nfunc TestGovcReplay(t *testing.T) {\n")
	sb.WriteString("\tdefer func() {\n\t\tif r := recover(); r != nil {\n\t\t\tfmt.Printf(\"REPLAY-RESULT: panic %v\\n\", r)\n\t\t}\n\t}()\n")
	sb.WriteString(strings.Join(decls, "\n") + "\n")
	if len(resNames) > 0 {
		fmt.Fprintf(&sb, "\t%s := %s\n", strings.Join(resNames, ", "), call)
		for _, r := range resNames {
			fmt.Fprintf(&sb, "\t_ = %s\n", r)
		}
	} else {
		fmt.Fprintf(&sb, "\t%s\n", call)
	}
	fmt.Fprintf(&sb, "\tfmt.Printf(\"REPLAY-CALL: %s = %%v\\n\", []interface{}{%s})\n", strings.ReplaceAll(call, "\"", "'"), strings.Join(resNames, ", "))
	sb.WriteString("\tbad := false\n")
	sb.WriteString(strings.Join(checks, "\n") + "\n")
	sb.WriteString("\tif !bad {\n\t\tfmt.Println(\"REPLAY-RESULT: held\")\n\t}\n}\n")
	return sb.String(), "generic"
}

// replayTemplates: hand-written replays for functions with heap-shaped inputs.
var replayTemplates = map[string]func(fn *ssa.Function, fr *FuncResult, o *Obligation, model map[string]string) (string, string){}

// govc replay <file>: re-run the recorded test of a replay file.
func cmdReplay(args []string) int {
	if len(args) < 1 {
		fmt.Fprintln(os.Stderr, "usage: govc replay <replay.json>")
		return 2
	}
	data, err := os.ReadFile(args[0])
	if err != nil {
		fmt.Fprintln(os.Stderr, err)
		return 2
	}
	var rec struct {
		Property   string `json:"property"`
		Obligation string `json:"obligation"`
		Reason     string `json:"reason"`
		Replay     *struct {
			Test string `json:"test_source"`
			Mode string `json:"mode"`
			Note string `json:"note"`
		} `json:"replay"`
	}
	if err := json.Unmarshal(data, &rec); err != nil {
		fmt.Fprintln(os.Stderr, err)
		return 2
	}
	fmt.Printf("property %s, obligation %s\n%s\n", rec.Property, rec.Obligation, rec.Reason)
	if rec.Replay == nil || rec.Replay.Test == "" {
		fmt.Println("no executable replay recorded for this obligation (no-failing-input-found)")
		if rec.Replay != nil {
			fmt.Println(rec.Replay.Note)
		}
		return 1
	}
	// find the package from the test source's package clause and the obligation's function
	ld, _, err := Load(repoDir, verifDir)
	if err != nil {
		fmt.Fprintln(os.Stderr, err)
		return 2
	}
	key := rec.Obligation
	if i := strings.Index(key, "#"); i >= 0 {
		key = key[:i]
	}
	for fk, fn := range ld.funcs {
		if strings.HasSuffix(fk, "::"+key) {
			pkg := strings.SplitN(fk, "::", 2)[0]
			rr := runReplayTest(repoDir, pkg, fn, rec.Replay.Test, rec.Replay.Mode)
			fmt.Println(rr.Output)
			if rr.Confirmed {
				fmt.Println("replay: violation reproduced on the real code")
				return 1
			}
			fmt.Println("replay: not reproduced")
			return 0
		}
	}
	fmt.Println("function not found")
	return 2
}
