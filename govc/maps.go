package main

// Maps, ranges, channels (events).

import (
	"fmt"
	"go/token"
	"go/types"
	"math/big"
	"strings"

	"golang.org/x/tools/go/ssa"
)

type bigIntT = big.Int

var bigOne = big.NewInt(1)

func mapKeyBase(mt *types.Map) string {
	return "map<" + typeName(mt.Key()) + "," + typeName(mt.Elem()) + ">"
}

func (ex *Exec) keySort(mt *types.Map) Sort {
	ls := leavesOf(mt.Key())
	if len(ls) != 1 {
		panic(unsupported("map with composite key " + typeName(mt.Key())))
	}
	return leafSortFix(ex, ls[0])
}

func (ex *Exec) keyTerm(mt *types.Map, k Value) Term { return ex.scalarOf(k) }

// mapLookup returns (value, present) in state st.
// val[m][k] is *defined* as the result of the Go expression m[k]: for an absent key (and for the nil
// map, ref 0) that is the zero value. This well-formedness fact is assumed for every heap version a
// lookup reads (mapWF); MakeMap, MapUpdate and delete preserve it by construction.
func (ex *Exec) mapLookup(st *State, mt *types.Map, m Term, k Value) (Value, Term) {
	ks := ex.keySort(mt)
	base := mapKeyBase(mt)
	kt := ex.keyTerm(mt, k)
	dom := ex.heapGetIn(st, base+"#dom", ArrSort(SInt, ArrSort(ks, SBool)))
	ex.mapWFNil(mt, dom, st.pc)
	ok := Sel(Sel(dom, m), kt)
	var ts []Term
	zs := ex.flatten(ex.zeroValue(mt.Elem()))
	for i, l := range leavesOf(mt.Elem()) {
		ls := leafSortFix(ex, l)
		h := ex.heapGetIn(st, base+"#val"+l.path, ArrSort(SInt, ArrSort(ks, ls)))
		ex.mapWF(mt, dom, h, zs[i].S, m)
		ts = append(ts, Sel(Sel(h, m), kt))
	}
	res := ex.unflatten(mt.Elem(), &ts)
	if st == ex.st {
		ex.assumeLoaded(res, mt.Elem(), st.pc)
	}
	return res, ok
}

// mapWF assumes, once per (heap version, map ref): no key in the nil map; absent keys map to zero.
// mapWFNil: "the nil map has no keys" for the heap version a lookup reads, stated UNDER THE PATH CONDITION of
// that read. A version is a term (store …) that exists on every path; on a path where the store that created
// it did not happen its map operand may be nil, and an unconditional axiom about that version made every such
// path contradictory (found when a vacuity cover on the error exits of the JSON targeter turned out unsat).
func (ex *Exec) mapWFNil(mt *types.Map, dom, pc Term) {
	if strings.Contains(dom.S, "!q") || strings.Contains(pc.S, "!q") {
		return
	}
	key := "nil|" + dom.S + "|" + pc.S
	if ex.mapWFDone == nil {
		ex.mapWFDone = map[string]bool{}
	}
	if ex.mapWFDone[key] {
		return
	}
	ex.mapWFDone[key] = true
	ks := ex.keySort(mt)
	ex.vc.fresh++
	q := fmt.Sprintf("k!q%d", ex.vc.fresh)
	ex.vc.AssumeRaw(fmt.Sprintf("(=> %s (forall ((%s %s)) (! (not (select (select %s 0) %s)) :pattern ((select (select %s 0) %s)))))", pc.S, q, ks, dom.S, q, dom.S, q), "the nil map has no keys")
}

func (ex *Exec) mapWF(mt *types.Map, dom, val Term, zero string, m Term) {
	if strings.Contains(dom.S, "!q") || strings.Contains(val.S, "!q") || strings.Contains(m.S, "!q") {
		return // not closed (inside a quantifier over maps): no axiom
	}
	ks := ex.keySort(mt)
	key := dom.S + "|" + val.S + "|" + m.S
	if ex.mapWFDone == nil {
		ex.mapWFDone = map[string]bool{}
	}
	if ex.mapWFDone[key] {
		return
	}
	ex.mapWFDone[key] = true
	save := ex.vc.inQuant
	ex.vc.inQuant = 0
	defer func() { ex.vc.inQuant = save }()
	ex.vc.fresh++
	q := fmt.Sprintf("k!q%d", ex.vc.fresh)
	if val.S == "" {
		ex.vc.AssumeRaw(fmt.Sprintf("(forall ((%s %s)) (! (not (select (select %s 0) %s)) :pattern ((select (select %s 0) %s))))", q, ks, dom.S, q, dom.S, q), "the nil map has no keys")
		return
	}
	ex.vc.AssumeRaw(fmt.Sprintf("(forall ((%s %s)) (! (=> (not (select (select %s %s) %s)) (= (select (select %s %s) %s) %s)) :pattern ((select (select %s %s) %s))))",
		q, ks, dom.S, m.S, q, val.S, m.S, q, zero, val.S, m.S, q), "m[k] is the zero value for an absent key")
}

func (ex *Exec) mapLen(st *State, mt *types.Map, m Term) Term {
	base := mapKeyBase(mt)
	card := ex.heapGetIn(st, base+"#card", ArrSort(SInt, SInt))
	n := Ite(Eq(m, I(0)), I(0), Sel(card, m))
	// len(m) counts the keys: a map with a key has positive length (assumed for every heap version read)
	ks := ex.keySort(mt)
	dom := ex.heapGetIn(st, base+"#dom", ArrSort(SInt, ArrSort(ks, SBool)))
	if !strings.Contains(dom.S, "!q") && !strings.Contains(card.S, "!q") && !strings.Contains(m.S, "!q") {
		key := "card|" + dom.S + "|" + card.S + "|" + m.S
		if ex.mapWFDone == nil {
			ex.mapWFDone = map[string]bool{}
		}
		if !ex.mapWFDone[key] {
			ex.mapWFDone[key] = true
			save := ex.vc.inQuant
			ex.vc.inQuant = 0
			ex.vc.fresh++
			q := fmt.Sprintf("k!q%d", ex.vc.fresh)
			ex.vc.AssumeRaw(fmt.Sprintf("(forall ((%s %s)) (! (=> (select (select %s %s) %s) (> (select %s %s) 0)) :pattern ((select (select %s %s) %s))))",
				q, ks, dom.S, m.S, q, card.S, m.S, dom.S, m.S, q), "a map that has a key has positive length")
			ex.vc.AssumeRaw(fmt.Sprintf("(>= (select %s %s) 0)", card.S, m.S), "map length is non-negative")
			ex.vc.inQuant = save
		}
	}
	return n
}

func (ex *Exec) mapStore(mt *types.Map, m Term, k Value, v Value) {
	ks := ex.keySort(mt)
	base := mapKeyBase(mt)
	kt := ex.keyTerm(mt, k)
	domKey := base + "#dom"
	dom := ex.heapGet(domKey, ArrSort(SInt, ArrSort(ks, SBool)))
	cardKey := base + "#card"
	card := ex.heapGet(cardKey, ArrSort(SInt, SInt))
	was := Sel(Sel(dom, m), kt)
	ex.hStore1(cardKey, ArrSort(SInt, SInt), m, Ite(was, Sel(card, m), Add(Sel(card, m), I(1))))
	ex.hStore2(domKey, ArrSort(SInt, ArrSort(ks, SBool)), m, kt, TTrue)
	ts := ex.flatten(v)
	for i, l := range leavesOf(mt.Elem()) {
		ls := leafSortFix(ex, l)
		key := base + "#val" + l.path
		ex.hStore2(key, ArrSort(SInt, ArrSort(ks, ls)), m, kt, ts[i])
	}
}

func (ex *Exec) mapDelete(mt *types.Map, m Term, k Value) {
	ks := ex.keySort(mt)
	base := mapKeyBase(mt)
	kt := ex.keyTerm(mt, k)
	domKey := base + "#dom"
	dom := ex.heapGet(domKey, ArrSort(SInt, ArrSort(ks, SBool)))
	cardKey := base + "#card"
	card := ex.heapGet(cardKey, ArrSort(SInt, SInt))
	was := And(Not(Eq(m, I(0))), Sel(Sel(dom, m), kt))
	ex.hStore1(cardKey, ArrSort(SInt, SInt), m, Ite(was, Sub(Sel(card, m), I(1)), Sel(card, m)))
	ex.hStore2(domKey, ArrSort(SInt, ArrSort(ks, SBool)), m, kt, TFalse)
	zs := ex.flatten(ex.zeroValue(mt.Elem()))
	for i, l := range leavesOf(mt.Elem()) {
		ex.hStore2(base+"#val"+l.path, ArrSort(SInt, ArrSort(ks, leafSortFix(ex, l))), m, kt, zs[i])
	}
}

func (ex *Exec) mapInitEmpty(mt *types.Map, r Term) {
	ks := ex.keySort(mt)
	base := mapKeyBase(mt)
	domKey := base + "#dom"
	dom := ex.heapGet(domKey, ArrSort(SInt, ArrSort(ks, SBool)))
	empty := Term{fmt.Sprintf("((as const %s) false)", ArrSort(ks, SBool)), ArrSort(ks, SBool)}
	_ = dom
	ex.hStoreRow(domKey, ArrSort(SInt, ArrSort(ks, SBool)), r, empty)
	cardKey := base + "#card"
	ex.hStore1(cardKey, ArrSort(SInt, SInt), r, I(0))
	// a new map maps every key to the zero value
	zs := ex.flatten(ex.zeroValue(mt.Elem()))
	for i, l := range leavesOf(mt.Elem()) {
		ls := leafSortFix(ex, l)
		rs := ArrSort(ks, ls)
		var row Term
		if ls == SInt || ls == SBool || ls == SReal {
			row = Term{fmt.Sprintf("((as const %s) %s)", rs, zs[i].S), rs}
		} else {
			row = ex.vc.Fresh("zerovals", rs)
			ex.vc.fresh++
			q := fmt.Sprintf("k!q%d", ex.vc.fresh)
			ex.vc.AssumeRaw(fmt.Sprintf("(forall ((%s %s)) (! (= (select %s %s) %s) :pattern ((select %s %s))))", q, ks, row.S, q, zs[i].S, row.S, q), "new map: zero values")
		}
		ex.hStoreRow(base+"#val"+l.path, ArrSort(SInt, rs), r, row)
	}
}

func (ex *Exec) lookup(x *ssa.Lookup) Value {
	if mt, ok := x.X.Type().Underlying().(*types.Map); ok {
		m := sc(ex.val(x.X))
		ex.checkReadMap(m, x.Pos())
		v, ok := ex.mapLookup(ex.st, mt, m, ex.val(x.Index))
		if x.CommaOk {
			return TupleV{v, Sc{ok}}
		}
		return v
	}
	// string index
	s := sc(ex.val(x.X))
	i := sc(ex.val(x.Index))
	ex.vc.DeclareFun("slen", []Sort{SStr}, SInt)
	ex.vc.DeclareFun("sbyte", []Sort{SStr, SInt}, SInt)
	ex.oblIdx(x.Pos(), i, app(SInt, "slen", s))
	b := app(SInt, "sbyte", s, i)
	ex.vc.Assume(ex.st.pc, And(Ge(b, I(0)), Le(b, I(255))), "")
	return Sc{b}
}

// ---------------------------------------------------------------------------
// range over maps (arbitrary enumeration order with a ghost visited set) and strings

type rangeState struct {
	mt      *types.Map
	m       Term
	visited string // ghost heap key
}

func (ex *Exec) rangeInit(x *ssa.Range) Value {
	if mt, ok := x.X.Type().Underlying().(*types.Map); ok {
		m := sc(ex.val(x.X))
		ks := ex.keySort(mt)
		key := fmt.Sprintf("visited<%s#%d>", x.Name(), ex.fr.id)
		ex.heapSort[key] = ArrSort(ks, SBool)
		ex.st.heap[key] = Term{fmt.Sprintf("((as const %s) false)", ArrSort(ks, SBool)), ArrSort(ks, SBool)}
		if _, ok := ex.heap0[key]; !ok {
			ex.heap0[key] = ex.st.heap[key]
		}
		ex.ranges[x] = &rangeState{mt: mt, m: m, visited: key}
		return Sc{I(0)}
	}
	panic(unsupported("range over " + typeName(x.X.Type())))
}

func (ex *Exec) rangeNext(x *ssa.Next) Value {
	if x.IsString {
		panic(unsupported("range over string"))
	}
	rs := ex.ranges[x.Iter.(*ssa.Range)]
	if rs == nil {
		panic(unsupported("Next without Range"))
	}
	mt := rs.mt
	ks := ex.keySort(mt)
	base := mapKeyBase(mt)
	ok := ex.vc.Fresh("next.ok", SBool)
	k := ex.vc.Fresh("next.k", ks)
	dom := ex.heapGet(base+"#dom", ArrSort(SInt, ArrSort(ks, SBool)))
	vis := ex.st.heap[rs.visited]
	inDom := Sel(Sel(dom, rs.m), k)
	ex.vc.Assume(ex.st.pc, Implies(ok, And(inDom, Not(Sel(vis, k)))), "range yields an unvisited key of the map")
	// exhausted: every key of the map has been visited
	ex.vc.fresh++
	q := fmt.Sprintf("k!q%d", ex.vc.fresh)
	ex.vc.Assume(ex.st.pc, Implies(Not(ok), Term{fmt.Sprintf("(forall ((%s %s)) (! (=> (select (select %s %s) %s) (select %s %s)) :pattern ((select (select %s %s) %s))))",
		q, ks, dom.S, rs.m.S, q, vis.S, q, dom.S, rs.m.S, q), SBool}), "range ends when all keys were visited")
	ex.st.heap[rs.visited] = ex.vc.Define("vis", Ite(ok, Sto(vis, k, TTrue), vis))
	ex.noteHeapWrite(rs.visited)
	var kv Value = Sc{k}
	val, _ := ex.mapLookup(ex.st, mt, rs.m, kv)
	return TupleV{Sc{ok}, kv, val}
}

// ---------------------------------------------------------------------------
// channels, goroutines: events for the ghost automata

func (ex *Exec) doGo(x *ssa.Go) {
	c := x.Common()
	name := calleeName(c)
	var args []Value
	for _, a := range c.Args {
		args = append(args, ex.val(a))
	}
	// the goroutine's precondition must hold when it is started
	if !c.IsInvoke() {
		if fv, ok := ex.val(c.Value).(FuncV); ok && fv.Fn != nil {
			if fc := ex.findContract(fv.Fn); fc != nil && !fc.Inline {
				ex.checkSpawnPre(fc, fv, args, x.Pos())
			}
		}
	}
	ex.fireAnchorsCall("go", name, c, args, nil, x.Pos())
}

func (ex *Exec) checkSpawnPre(fc *FuncContract, fv FuncV, args []Value, pos token.Pos) {
	f := fv.Fn
	env := &Env{vars: map[string]TV{}, pkg: pkgOfFn(f), old: ex.st}
	for i, p := range f.Params {
		if i < len(args) {
			env.vars[p.Name()] = TV{args[i], p.Type()}
		}
	}
	for i, p := range f.FreeVars {
		if i < len(fv.Free) {
			if ptr, ok := fv.Free[i].(PtrV); ok {
				env.vars[p.Name()] = TV{ex.load(ptr), p.Type().(*types.Pointer).Elem()}
			}
		}
	}
	key := contractKey(f)
	// a new goroutine holds no locks: its own held(...) flags are all false
	spawnSt := ex.st.clone()
	hs := ArrSort(SInt, SBool)
	ex.heapGet("ghost<held>", hs)
	spawnSt.heap["ghost<held>"] = Term{fmt.Sprintf("((as const %s) false)", hs), hs}
	for i, r := range fc.Requires {
		g := ex.evalBool(r.E, spawnSt, env)
		ex.vc.Oblige("pre", fmt.Sprintf("go %s/%s", key, clauseName(r, i)), ex.st.pc, g, ex.posString(pos))
	}
	ex.calleesUsed[key] = true
}

func (ex *Exec) doSend(x *ssa.Send) {
	ex.yield()
	ex.anchorArgTypes = []types.Type{x.X.Type()}
	ex.fireAnchors("send", chanName(x.Chan), []Value{ex.val(x.X)}, nil, x.Pos())
	ex.anchorArgTypes = nil
}

func (ex *Exec) doRecv(x *ssa.UnOp) Value {
	et := x.X.Type().Underlying().(*types.Chan).Elem()
	ex.yield()
	v := ex.freshValue("recv", et, ex.st.pc)
	if x.CommaOk {
		ok := ex.vc.Fresh("recv.ok", SBool)
		// Go: a receive reports ok == false only on a closed (and drained) channel
		ex.vc.Assume(ex.st.pc, Implies(Not(ok), Sel(ex.heapGet("ghost<closed>", ArrSort(SInt, SBool)), sc(ex.val(x.X)))), "a receive fails only on a closed channel")
		res := TupleV{v, Sc{ok}}
		ex.fireAnchors("recv", chanName(x.X), nil, res, x.Pos())
		return res
	}
	ex.fireAnchors("recv", chanName(x.X), nil, v, x.Pos())
	return v
}

// doSelect: nondeterministic choice among the ready cases; the chosen index is fresh.
func (ex *Exec) doSelect(x *ssa.Select) Value {
	n := len(x.States)
	idx := ex.vc.Fresh("select.idx", SInt)
	lo := I(0)
	if !x.Blocking {
		lo = I(-1)
	}
	ex.vc.Assume(ex.st.pc, And(Le(lo, idx), Lt(idx, I(int64(n)))), "select picks one of its cases")
	kind := "select-blocking"
	if !x.Blocking {
		kind = "select-nonblocking"
	}
	ex.selectIdx[x] = idx
	ex.yield()
	ex.fireAnchors(kind, "", nil, nil, x.Pos())
	if !x.Blocking {
		save := ex.st.pc
		ex.st.pc = ex.vc.Define("pc", And(save, Eq(idx, I(-1))))
		ex.eventGuard = Eq(idx, I(-1))
		ex.fireAnchors("select-default", "", nil, nil, x.Pos())
		ex.eventGuard = Term{}
		ex.st.pc = save
	}
	// per-case events are fired under the condition idx == i
	for i, s := range x.States {
		save := ex.st.pc
		ex.st.pc = ex.vc.Define("pc", And(save, Eq(idx, I(int64(i)))))
		ex.eventGuard = Eq(idx, I(int64(i)))
		if s.Dir == types.SendOnly {
			ex.fireAnchors("send", chanName(s.Chan), nil, nil, x.Pos())
		} else {
			ex.fireAnchors("recv", chanName(s.Chan), nil, nil, x.Pos())
		}
		ex.eventGuard = Term{}
		ex.st.pc = save
	}
	recvok := ex.vc.Fresh("select.recvok", SBool)
	for i, s := range x.States {
		if s.Dir == types.RecvOnly {
			// Go: the chosen receive reports ok == false only on a closed (and drained) channel
			ex.vc.Assume(ex.st.pc, Implies(And(Eq(idx, I(int64(i))), Not(recvok)), Sel(ex.heapGet("ghost<closed>", ArrSort(SInt, SBool)), sc(ex.val(s.Chan)))), "a receive fails only on a closed channel")
		}
	}
	out := TupleV{Sc{idx}, Sc{recvok}}
	for _, s := range x.States {
		if s.Dir == types.RecvOnly {
			et := s.Chan.Type().Underlying().(*types.Chan).Elem()
			out = append(out, ex.freshValue("select.recv", et, ex.st.pc))
		}
	}
	return out
}

// chanName gives the source name of a channel operand (local, free variable, field).
func chanName(v ssa.Value) string {
	switch x := v.(type) {
	case *ssa.UnOp:
		if x.Op == token.MUL {
			return chanName(x.X)
		}
	case *ssa.Alloc:
		return x.Comment
	case *ssa.FreeVar:
		return x.Name()
	case *ssa.Parameter:
		return x.Name()
	case *ssa.FieldAddr:
		return chanName(x.X) + "." + fieldName(x)
	case *ssa.ChangeType:
		return chanName(x.X)
	case *ssa.MakeChan:
		return x.Name()
	}
	return v.Name()
}

// checkObjInv: the `requires [obj-...]` clauses of a closure's contract are its object invariant over the
// captured variables; the code that creates the closure must establish them (obligation kind objinv).
func (ex *Exec) checkObjInv(fv FuncV, pos token.Pos) {
	fc := ex.findContract(fv.Fn)
	if fc == nil || fc.Inline {
		return
	}
	env := &Env{vars: map[string]TV{}, pkg: pkgOfFn(fv.Fn), old: ex.st}
	for i, p := range fv.Fn.FreeVars {
		if i < len(fv.Free) {
			if ptr, ok := fv.Free[i].(PtrV); ok {
				env.vars[p.Name()] = TV{ex.load(ptr), p.Type().(*types.Pointer).Elem()}
			}
		}
	}
	for i, r := range fc.Requires {
		if !strings.HasPrefix(r.Label, "obj-") {
			continue
		}
		g := ex.evalBool(r.E, ex.st, env)
		ex.vc.Oblige("objinv", fmt.Sprintf("%s/%s", contractKey(fv.Fn), clauseName(r, i)), ex.st.pc, g, ex.posString(pos))
		ex.calleesUsed[contractKey(fv.Fn)] = true
	}
}
