package main

// Evaluation of specification expressions to SMT over a symbolic state.

import (
	"fmt"
	"go/constant"
	"go/token"
	"go/types"
	"strings"

	"golang.org/x/tools/go/ssa"
)

// TV is a typed value (type may be nil for purely logical values).
type TV struct {
	V Value
	T types.Type
}

type Env struct {
	vars   map[string]TV
	parent *Env
	old    *State // state for old(...)
	fr     *Frame // for locals by name
	pkg    *types.Package
}

func (e *Env) lookup(n string) (TV, bool) {
	for x := e; x != nil; x = x.parent {
		if v, ok := x.vars[n]; ok {
			return v, true
		}
	}
	return TV{}, false
}

func (e *Env) child() *Env {
	return &Env{vars: map[string]TV{}, parent: e, old: e.old, fr: e.fr, pkg: e.pkg}
}

func (e *Env) oldState() *State {
	for x := e; x != nil; x = x.parent {
		if x.old != nil {
			return x.old
		}
	}
	return nil
}
func (e *Env) frame() *Frame {
	for x := e; x != nil; x = x.parent {
		if x.fr != nil {
			return x.fr
		}
	}
	return nil
}
func (e *Env) pkgOf() *types.Package {
	for x := e; x != nil; x = x.parent {
		if x.pkg != nil {
			return x.pkg
		}
	}
	return nil
}

var tInt = types.Typ[types.Int]
var tBool = types.Typ[types.Bool]
var tString = types.Typ[types.String]
var tFloat = types.Typ[types.Float64]

// logicalInt marks mathematical integers in specs.
type logicalInt struct{ types.Type }

func specSort(name string, ex *Exec) Sort {
	switch name {
	case "int", "int64", "uint64", "uint", "uint16", "Duration", "time.Duration", "Time", "time.Time", "ref":
		return SInt
	case "bool":
		return SBool
	case "string":
		return SStr
	case "float64", "real":
		return ex.fsort()
	}
	return SInt
}

// evalBool evaluates a spec expression to a Bool term in state st.
func (ex *Exec) evalBool(e Expr, st *State, env *Env) Term {
	tv := ex.eval(e, st, ex.envOr(env))
	t := sc(tv.V)
	if t.Sort != SBool {
		panic(unsupported(fmt.Sprintf("spec: expected bool, got %s in %v", t.Sort, e)))
	}
	return t
}

func (ex *Exec) evalInt(e Expr, st *State, env *Env) Term {
	tv := ex.eval(e, st, ex.envOr(env))
	return sc(tv.V)
}

func (ex *Exec) envOr(env *Env) *Env {
	if env != nil {
		return env
	}
	return ex.topEnv()
}

// topEnv: names of the function under contract.
func (ex *Exec) topEnv() *Env {
	fr := ex.top
	if ex.fr != nil && ex.fr.contract != nil && ex.fr != ex.top {
		// inlined callee with its own loop invariants: names of that frame
		fr = ex.fr
		env := &Env{vars: map[string]TV{}, old: ex.entry, fr: fr, pkg: pkgOfFn(fr.fn)}
		for i, p := range fr.fn.Params {
			env.vars[p.Name()] = TV{fr.params[i], p.Type()}
		}
		return env
	}
	env := &Env{vars: map[string]TV{}, old: ex.entry, fr: fr, pkg: pkgOfFn(fr.fn)}
	for n, v := range ex.paramVals {
		if ex.isFreeVar(n) {
			continue // captured variables are read through their cell in the state at hand
		}
		env.vars[n] = TV{v, ex.paramType(n)}
	}
	return env
}

func (ex *Exec) isFreeVar(n string) bool {
	if ex.top == nil {
		return false
	}
	for _, p := range ex.top.fn.FreeVars {
		if p.Name() == n {
			return true
		}
	}
	return false
}

func pkgOfFn(fn *ssa.Function) *types.Package {
	for f := fn; f != nil; f = f.Parent() {
		if f.Pkg != nil {
			return f.Pkg.Pkg
		}
	}
	return nil
}

func (ex *Exec) paramType(n string) types.Type {
	fn := ex.top.fn
	for _, p := range fn.Params {
		if p.Name() == n {
			return p.Type()
		}
	}
	for _, p := range fn.FreeVars {
		if p.Name() == n {
			return p.Type()
		}
	}
	return nil
}

// localByName finds the current value of a local variable (Alloc with that comment) of a frame.
func (ex *Exec) localByName(fr *Frame, st *State, name string) (TV, bool) {
	var best *ssa.Alloc
	later := func(a, b *ssa.Alloc) bool { // deterministic: source position, then block/instruction order
		if a.Pos() != b.Pos() {
			return a.Pos() > b.Pos()
		}
		if a.Block().Index != b.Block().Index {
			return a.Block().Index > b.Block().Index
		}
		return allocIndex(a) > allocIndex(b)
	}
	for k := range st.cells {
		if k.frame == fr.id && k.a.Comment == name {
			if name == "rangeindex" && ex.curLoop != nil {
				// the hidden index of the range loop at hand lives in that loop's pre-header
				pre := false
				for _, s := range k.a.Block().Succs {
					if s == ex.curLoop.header && !ex.curLoop.blocks[k.a.Block()] {
						pre = true
					}
				}
				if !pre {
					continue
				}
			}
			if best == nil || later(k.a, best) {
				best = k.a
			}
		}
	}
	if best != nil {
		t := best.Type().(*types.Pointer).Elem()
		return TV{st.cells[cellKey{best, fr.id}], t}, true
	}
	// heap-allocated local (captured): registers hold the pointer
	for v, rv := range fr.regs {
		if a, ok := v.(*ssa.Alloc); ok && a.Heap && a.Comment == name {
			p := rv.(PtrV)
			return TV{ex.loadIn(st, p), a.Type().(*types.Pointer).Elem()}, true
		}
	}
	return TV{}, false
}

func (ex *Exec) eval(e Expr, st *State, env *Env) TV {
	switch x := e.(type) {
	case EInt:
		if strings.HasPrefix(x.Val, "0x") {
			v := constant.MakeFromLiteral(x.Val, 5 /*token.INT*/, 0)
			return TV{Sc{IStr(constant.ToInt(v).ExactString())}, tInt}
		}
		return TV{Sc{IStr(x.Val)}, tInt}
	case EBool:
		return TV{Sc{B(x.Val)}, tBool}
	case EFloat:
		return TV{Sc{ex.floatLit(constant.MakeFromLiteral(x.Val, token.FLOAT, 0))}, tFloat}
	case EStr:
		return TV{Sc{ex.strConst(x.Val)}, tString}
	case EIdent:
		return ex.evalIdent(x.Name, st, env)
	case EUn:
		v := ex.eval(x.X, st, env)
		switch x.Op {
		case "!":
			return TV{Sc{Not(sc(v.V))}, tBool}
		case "-":
			t := sc(v.V)
			if t.Sort == SInt {
				return TV{Sc{app(SInt, "-", t)}, tInt}
			}
			return TV{Sc{ex.fneg(t)}, tFloat}
		}
	case EAddr:
		p, t := ex.placeOf(x.X, st, env)
		return TV{p, types.NewPointer(t)}
	case EStar:
		v := ex.eval(x.X, st, env)
		p, ok := v.V.(PtrV)
		if !ok {
			panic(unsupported("spec: * of non-pointer"))
		}
		return TV{ex.loadIn(st, p), typeAtPath(p.Root, p.Path)}
	case EBin:
		return ex.evalBin(x, st, env)
	case ECond:
		c := sc(ex.eval(x.C, st, env).V)
		a := ex.eval(x.A, st, env)
		b := ex.eval(x.B, st, env)
		return TV{ex.mergeValues([]Term{c, Not(c)}, []Value{a.V, b.V}, "cond"), a.T}
	case ESel:
		return ex.evalSel(x, st, env)
	case EIndex:
		return ex.evalIndex(x, st, env)
	case ESlice:
		v := ex.eval(x.X, st, env)
		s, ok := v.V.(SliceV)
		if !ok {
			panic(unsupported("spec: slicing non-slice"))
		}
		lo := I(0)
		if x.Lo != nil {
			lo = sc(ex.eval(x.Lo, st, env).V)
		}
		hi := s.Len
		if x.Hi != nil {
			hi = sc(ex.eval(x.Hi, st, env).V)
		}
		return TV{SliceV{s.Ptr, Add(s.Off, lo), Sub(hi, lo), Sub(s.Cap, lo)}, v.T}
	case EQuant:
		return ex.evalQuant(x, st, env)
	case ECall:
		return ex.evalCall(x, st, env)
	}
	panic(unsupported(fmt.Sprintf("spec: cannot evaluate %T %v", e, e)))
}

func (ex *Exec) evalIdent(name string, st *State, env *Env) TV {
	if v, ok := env.lookup(name); ok {
		return v
	}
	if name == "nil" {
		return TV{Sc{I(0)}, types.Typ[types.UntypedNil]}
	}
	if name == "alloc" {
		return TV{Sc{st.alloc}, tInt}
	}
	if g, ok := st.ghost[name]; ok {
		if g.Sort == SBool {
			return TV{Sc{g}, tBool}
		}
		return TV{Sc{g}, tInt}
	}
	if fr := env.frame(); fr != nil {
		if v, ok := ex.localByName(fr, st, name); ok {
			return v
		}
	}
	// captured variable of the closure under contract (or of the inlined closure at hand)
	for _, fr := range []*Frame{env.frame(), ex.top} {
		if fr == nil {
			continue
		}
		for i, fv := range fr.fn.FreeVars {
			if fv.Name() == name {
				p := fr.free[i].(PtrV)
				return TV{ex.loadIn(st, p), fv.Type().(*types.Pointer).Elem()}
			}
		}
	}
	switch name {
	case "MaxInt64":
		return TV{Sc{IStr("9223372036854775807")}, tInt}
	case "MinInt64":
		return TV{Sc{IStr("-9223372036854775808")}, tInt}
	case "MaxUint64":
		return TV{Sc{IStr("18446744073709551615")}, tInt}
	case "MaxUint16":
		return TV{Sc{I(65535)}, tInt}
	case "zeroTime":
		return TV{Sc{IStr(zeroTimeNs)}, tInt}
	}
	// package-level object
	if pkg := env.pkgOf(); pkg != nil {
		if obj := pkg.Scope().Lookup(name); obj != nil {
			return ex.evalObject(obj, st)
		}
	}
	if sf, ok := ex.specs.SFuncs[name]; ok && len(sf.Params) == 0 {
		return ex.callSpecFunc(sf, nil, st, env)
	}
	panic(unsupported("spec: unknown identifier " + name))
}

func (ex *Exec) evalObject(obj types.Object, st *State) TV {
	switch o := obj.(type) {
	case *types.Const:
		switch {
		case isBool(o.Type()):
			return TV{Sc{B(constant.BoolVal(o.Val()))}, o.Type()}
		case isString(o.Type()):
			return TV{Sc{ex.strConst(constant.StringVal(o.Val()))}, o.Type()}
		case isFloat(o.Type()):
			return TV{Sc{ex.floatLit(o.Val())}, o.Type()}
		default:
			if iv := constant.ToInt(o.Val()); iv.Kind() == constant.Int {
				return TV{Sc{IStr(iv.ExactString())}, o.Type()}
			}
			return TV{Sc{ex.floatLit(o.Val())}, tFloat}
		}
	case *types.Var:
		// package-level variable: its current value
		pkg := ex.ld.prog.Package(o.Pkg())
		if pkg != nil {
			if g, ok := pkg.Members[o.Name()].(*ssa.Global); ok {
				p := PtrV{Kind: pGlobal, Glob: g, Root: o.Type()}
				return TV{ex.loadIn(st, p), o.Type()}
			}
		}
	}
	panic(unsupported("spec: unsupported object " + obj.String()))
}

func (ex *Exec) evalSel(x ESel, st *State, env *Env) TV {
	// package-qualified name?
	if id, ok := x.X.(EIdent); ok {
		if _, bound := env.lookup(id.Name); !bound {
			if pkg := ex.ld.pkgByName(id.Name); pkg != nil {
				if _, isLocal := ex.localByNameOK(env, st, id.Name); !isLocal {
					if obj := pkg.Scope().Lookup(x.Name); obj != nil {
						return ex.evalObject(obj, st)
					}
				}
			}
		}
	}
	v := ex.eval(x.X, st, env)
	return ex.selectField(v, x.Name, st)
}

func (ex *Exec) localByNameOK(env *Env, st *State, n string) (TV, bool) {
	if fr := env.frame(); fr != nil {
		return ex.localByName(fr, st, n)
	}
	return TV{}, false
}

func (ex *Exec) selectField(v TV, name string, st *State) TV {
	t := v.T
	if t == nil {
		panic(unsupported("spec: field " + name + " of untyped value"))
	}
	// auto-deref
	if pt, ok := t.Underlying().(*types.Pointer); ok {
		p := v.V.(PtrV)
		sty, ok := pt.Elem().Underlying().(*types.Struct)
		if !ok {
			panic(unsupported("spec: field of pointer to non-struct"))
		}
		idx, ft := fieldIndex(sty, name)
		if idx == nil {
			panic(unsupported("spec: no field " + name + " in " + typeName(pt.Elem())))
		}
		np := p
		np.Path = append(append([]int(nil), p.Path...), idx...)
		if !transparentStruct(typeAtPath(p.Root, p.Path)) {
			// field of an opaque (library) struct: the same uninterpreted getfield the executor uses for loads
			base := p
			op := PtrV{Kind: pOpaque, Base: &base, Fld: sanitize(typeName(typeAtPath(p.Root, p.Path))) + "." + name, Root: ft}
			return TV{ex.loadIn(st, op), ft}
		}
		return TV{ex.loadIn(st, np), ft}
	}
	if sty, ok := t.Underlying().(*types.Struct); ok {
		sv, ok := v.V.(StructV)
		if !ok {
			panic(unsupported("spec: field " + name + " of opaque struct " + typeName(t)))
		}
		idx, ft := fieldIndex(sty, name)
		if idx == nil {
			panic(unsupported("spec: no field " + name + " in " + typeName(t)))
		}
		var cur Value = sv
		for _, i := range idx {
			cur = cur.(StructV).F[i]
		}
		return TV{cur, ft}
	}
	panic(unsupported("spec: field " + name + " of " + typeName(t)))
}

// fieldIndex finds a (possibly promoted) field.
func fieldIndex(st *types.Struct, name string) ([]int, types.Type) {
	for i := 0; i < st.NumFields(); i++ {
		if st.Field(i).Name() == name {
			return []int{i}, st.Field(i).Type()
		}
	}
	for i := 0; i < st.NumFields(); i++ {
		f := st.Field(i)
		if f.Embedded() {
			ft := f.Type()
			if sub, ok := ft.Underlying().(*types.Struct); ok && transparentStruct(ft) {
				if idx, t := fieldIndex(sub, name); idx != nil {
					return append([]int{i}, idx...), t
				}
			}
		}
	}
	return nil, nil
}

func elemTypeOf(t types.Type) types.Type {
	switch u := t.Underlying().(type) {
	case *types.Slice:
		return u.Elem()
	case *types.Array:
		return u.Elem()
	case *types.Pointer:
		return elemTypeOf(u.Elem())
	case *types.Basic:
		if u.Info()&types.IsString != 0 {
			return types.Typ[types.Byte]
		}
	}
	return nil
}

func (ex *Exec) evalIndex(x EIndex, st *State, env *Env) TV {
	v := ex.eval(x.X, st, env)
	i := sc(ex.eval(x.I, st, env).V)
	switch s := v.V.(type) {
	case SliceV:
		et := elemTypeOf(v.T)
		p := PtrV{Kind: pElem, Ref: s.Ptr, Idx: Idx(s.Off, i), Root: et}
		return TV{ex.loadIn(st, p), et}
	case Sc:
		if v.T != nil {
			if mt, ok := v.T.Underlying().(*types.Map); ok {
				k := ex.eval(x.I, st, env)
				val, _ := ex.mapLookup(st, mt, s.T, k.V)
				return TV{val, mt.Elem()}
			}
			if isString(v.T) {
				ex.vc.DeclareFun("sbyte", []Sort{SStr, SInt}, SInt)
				return TV{Sc{app(SInt, "sbyte", s.T, i)}, types.Typ[types.Byte]}
			}
		}
	}
	panic(unsupported(fmt.Sprintf("spec: index of %T", v.V)))
}

func (ex *Exec) evalBin(x EBin, st *State, env *Env) TV {
	switch x.Op {
	case "&&", "||", "==>", "<==>":
		a := sc(ex.eval(x.L, st, env).V)
		b := sc(ex.eval(x.R, st, env).V)
		switch x.Op {
		case "&&":
			return TV{Sc{And(a, b)}, tBool}
		case "||":
			return TV{Sc{Or(a, b)}, tBool}
		case "==>":
			return TV{Sc{Implies(a, b)}, tBool}
		default:
			return TV{Sc{Eq(a, b)}, tBool}
		}
	}
	l := ex.eval(x.L, st, env)
	r := ex.eval(x.R, st, env)
	switch x.Op {
	case "==", "!=":
		ex.specEq = true // logical equality in specifications (also on floats)
		eq := ex.valuesEqual(l, r)
		ex.specEq = false
		if x.Op == "!=" {
			eq = Not(eq)
		}
		return TV{Sc{eq}, tBool}
	}
	a, b := ex.scalarOf(l.V), ex.scalarOf(r.V)
	if a.Sort == SInt && b.Sort == SInt {
		switch x.Op {
		case "+":
			return TV{Sc{Add(a, b)}, tInt}
		case "-":
			return TV{Sc{Sub(a, b)}, tInt}
		case "*":
			return TV{Sc{Mul(a, b)}, tInt}
		case "/":
			return TV{Sc{app(SInt, "tdiv", a, b)}, tInt}
		case "%":
			return TV{Sc{app(SInt, "tmod", a, b)}, tInt}
		case "<":
			return TV{Sc{Lt(a, b)}, tBool}
		case "<=":
			return TV{Sc{Le(a, b)}, tBool}
		case ">":
			return TV{Sc{Gt(a, b)}, tBool}
		case ">=":
			return TV{Sc{Ge(a, b)}, tBool}
		}
	}
	if a.Sort == ex.fsort() && b.Sort == ex.fsort() {
		op := map[string]string{"+": "fadd", "-": "fsub", "*": "fmul", "/": "fdiv", "<": "flt", "<=": "fle", ">": "fgt", ">=": "fge"}[x.Op]
		t := ex.fbin(op, a, b)
		if t.Sort == SBool {
			return TV{Sc{t}, tBool}
		}
		return TV{Sc{t}, tFloat}
	}
	if a.Sort == SStr && b.Sort == SStr && x.Op == "+" {
		return TV{Sc{ex.sconcat(a, b)}, tString}
	}
	panic(unsupported(fmt.Sprintf("spec: operator %s on %s, %s", x.Op, a.Sort, b.Sort)))
}

func isNilConst(v Value) bool {
	s, ok := v.(Sc)
	return ok && s.T.S == "0"
}

func (ex *Exec) valuesEqual(l, r TV) Term {
	// interior / local pointers compared with nil
	for _, pr := range [][2]Value{{l.V, r.V}, {r.V, l.V}} {
		if p, ok := pr[0].(PtrV); ok {
			other := pr[1]
			if op, isP := other.(PtrV); isP && op.Kind == pObj && len(op.Path) == 0 && op.Ref.S == "0" {
				other = Sc{I(0)}
			}
			if isNilConst(other) {
				switch {
				case p.Kind == pLocal || p.Kind == pGlobal:
					return TFalse
				case p.Kind == pObj && len(p.Path) > 0:
					return Eq(p.Ref, I(0))
				case p.Kind == pElem:
					return Eq(p.Ref, I(0))
				}
			}
		}
	}
	// slice == nil
	if s, ok := l.V.(SliceV); ok {
		if _, isSc := r.V.(Sc); isSc {
			return Eq(s.Ptr, I(0))
		}
		s2 := r.V.(SliceV)
		return And(Eq(s.Ptr, s2.Ptr), Eq(s.Off, s2.Off), Eq(s.Len, s2.Len))
	}
	if s, ok := r.V.(SliceV); ok {
		return Eq(s.Ptr, I(0))
	}
	if sv, ok := l.V.(StructV); ok {
		rv := r.V.(StructV)
		var cs []Term
		for i := range sv.F {
			cs = append(cs, ex.valuesEqual(TV{sv.F[i], sv.Typ.Field(i).Type()}, TV{rv.F[i], sv.Typ.Field(i).Type()}))
		}
		return And(cs...)
	}
	a, b := ex.scalarOf(l.V), ex.scalarOf(r.V)
	if a.Sort != b.Sort {
		panic(unsupported(fmt.Sprintf("spec: comparing %s with %s", a.Sort, b.Sort)))
	}
	if a.Sort == SF64 && !ex.specEq {
		return ex.fbin("feq", a, b)
	}
	return Eq(a, b)
}

func (ex *Exec) evalQuant(x EQuant, st *State, env *Env) TV {
	ne := env.child()
	var binds []string
	var ranges []Term
	for _, v := range x.Vars {
		srt := specSort(v.Type, ex)
		ex.vc.fresh++
		name := fmt.Sprintf("%s!q%d", sanitize(v.Name), ex.vc.fresh)
		binds = append(binds, fmt.Sprintf("(%s %s)", name, srt))
		var t types.Type = tInt
		switch srt {
		case SBool:
			t = tBool
		case SStr:
			t = tString
		case SF64, SReal:
			t = tFloat
		}
		if strings.HasPrefix(v.Type, "*") {
			// typed pointer variable: any reference, viewed as a pointer to the named struct type
			tn := v.Type[1:]
			var obj types.Object
			if i := strings.Index(tn, "."); i >= 0 {
				for _, pk := range ex.ld.prog.AllPackages() {
					if pk.Pkg.Name() == tn[:i] && strings.HasPrefix(pk.Pkg.Path(), modPrefix) {
						obj = pk.Pkg.Scope().Lookup(tn[i+1:])
					}
				}
			} else if env != nil && env.pkg != nil {
				obj = env.pkg.Scope().Lookup(tn)
			}
			if obj == nil {
				panic(unsupported("spec: unknown type " + tn + " in quantifier"))
			}
			ne.vars[v.Name] = TV{PtrV{Kind: pObj, Ref: Term{name, SInt}, Root: obj.Type()}, types.NewPointer(obj.Type())}
			continue
		}
		ne.vars[v.Name] = TV{Sc{Term{name, srt}}, t}
		_ = ranges
	}
	ex.vc.inQuant++
	body := sc(ex.eval(x.Body, st, ne).V)
	ex.vc.inQuant--
	q := "forall"
	if !x.Forall {
		q = "exists"
	}
	return TV{Sc{Term{fmt.Sprintf("(%s (%s) %s)", q, strings.Join(binds, " "), body.S), SBool}}, tBool}
}

func (ex *Exec) evalCall(x ECall, st *State, env *Env) TV {
	name := ""
	switch f := x.Fun.(type) {
	case EIdent:
		name = f.Name
	case ESel:
		if id, ok := f.X.(EIdent); ok {
			name = id.Name + "." + f.Name
		}
	}
	arg := func(i int) TV { return ex.eval(x.Args[i], st, env) }
	switch name {
	case "len":
		v := arg(0)
		switch s := v.V.(type) {
		case SliceV:
			return TV{Sc{s.Len}, tInt}
		case Sc:
			if s.T.Sort == SStr {
				ex.vc.DeclareFun("slen", []Sort{SStr}, SInt)
				return TV{Sc{app(SInt, "slen", s.T)}, tInt}
			}
			if mt, ok := v.T.Underlying().(*types.Map); ok {
				return TV{Sc{ex.mapLen(st, mt, s.T)}, tInt}
			}
		}
		panic(unsupported("spec: len of unsupported value"))
	case "cap":
		v := arg(0)
		if sv, ok := v.V.(SliceV); ok {
			return TV{Sc{sv.Cap}, tInt}
		}
		ex.vc.DeclareFun("chancap", []Sort{SInt}, SInt)
		return TV{Sc{app(SInt, "chancap", ex.scalarOf(v.V))}, tInt}
	case "ptr":
		return TV{Sc{arg(0).V.(SliceV).Ptr}, tInt}
	case "off":
		return TV{Sc{arg(0).V.(SliceV).Off}, tInt}
	case "old":
		os := env.oldState()
		if os == nil {
			panic(unsupported("spec: old() without a pre-state"))
		}
		oe := env.child()
		oe.fr = nil
		return ex.evalOld(x.Args[0], os, env)
	case "fresh":
		v := arg(0)
		os := env.oldState()
		base := ex.alloc0
		if os != nil {
			base = os.alloc
		}
		var r Term
		switch s := v.V.(type) {
		case SliceV:
			r = s.Ptr
		default:
			r = ex.scalarOf(v.V)
		}
		return TV{Sc{And(Ge(r, base), Lt(r, st.alloc))}, tBool}
	case "visitedin": // visitedin(N, k): key k has already been produced by the map range that is loop N of this function
		n := 0
		if lit, ok := x.Args[0].(EInt); ok {
			fmt.Sscan(lit.Val, &n)
		}
		k := ex.scalarOf(arg(1).V)
		for r, rs := range ex.ranges {
			if r.Parent() != ex.top.fn || r.Referrers() == nil {
				continue
			}
			for _, ref := range *r.Referrers() {
				nx, ok := ref.(*ssa.Next)
				if !ok {
					continue
				}
				for _, li := range findLoops(nx.Parent()) {
					if li.header == nx.Block() && li.ordinal == n {
						h, ok := st.heap[rs.visited]
						if !ok {
							h = ex.heap0[rs.visited]
						}
						return TV{Sc{Sel(h, k)}, tBool}
					}
				}
			}
		}
		panic(unsupported(fmt.Sprintf("visitedin(%d, …): loop %d is not a map range that has started", n, n)))
	case "visited": // visited(k): key k has already been produced by the (only) map range of this function
		k := ex.scalarOf(arg(0).V)
		var keys []string
		for hk := range st.heap {
			if strings.HasPrefix(hk, "visited<") {
				keys = append(keys, hk)
			}
		}
		if len(keys) != 1 {
			panic(unsupported(fmt.Sprintf("visited(): %d map ranges in scope", len(keys))))
		}
		return TV{Sc{Sel(st.heap[keys[0]], k)}, tBool}
	case "emod": // Euclidean remainder (what % computes on unsigned operands)
		return TV{Sc{app(SInt, "mod", sc(arg(0).V), sc(arg(1).V))}, tInt}
	case "ediv":
		return TV{Sc{app(SInt, "div", sc(arg(0).V), sc(arg(1).V))}, tInt}
	case "max", "min":
		a, b := sc(arg(0).V), sc(arg(1).V)
		if name == "max" {
			return TV{Sc{app(SInt, "imax", a, b)}, tInt}
		}
		return TV{Sc{app(SInt, "imin", a, b)}, tInt}
	case "ref":
		v := arg(0)
		switch s := v.V.(type) {
		case SliceV:
			return TV{Sc{s.Ptr}, tInt}
		}
		return TV{Sc{ex.scalarOf(v.V)}, tInt}
	case "has": // has(m, k): key present in map
		m := arg(0)
		k := arg(1)
		mt := m.T.Underlying().(*types.Map)
		_, ok := ex.mapLookup(st, mt, sc(m.V), k.V)
		return TV{Sc{ok}, tBool}
	case "fname": // static name of a function value ("" when it is not a known function)
		v := arg(0)
		if fv, ok := v.V.(FuncV); ok && fv.Fn != nil {
			return TV{Sc{ex.strConst(fv.Fn.Name())}, tString}
		}
		return TV{Sc{ex.strConst("")}, tString}
	case "boxof": // the interface value holding e (as MakeInterface builds it)
		v := arg(0)
		tn := ""
		if len(x.Args) > 1 {
			tn = x.Args[1].(EStr).Val
		} else if v.T != nil {
			tn = typeName(v.T)
		}
		ts := ex.flatten(v.V)
		var sorts []Sort
		for _, tt := range ts {
			sorts = append(sorts, tt.Sort)
		}
		name := "box." + sanitize(tn)
		ex.vc.DeclareFun(name, sorts, SInt)
		return TV{Sc{app(SInt, name, ts...)}, nil}
	case "f2i": // f2i(x, "time.Duration"): the float -> integer conversion the code performs
		a := sc(arg(0).V)
		tn := x.Args[1].(EStr).Val
		if ex.realFloats {
			return TV{Sc{Ite(app(SBool, ">=", a, Term{"0.0", SReal}), app(SInt, "to_int", a), app(SInt, "-", app(SInt, "to_int", app(SReal, "-", a))))}, tInt}
		}
		name := "f2i." + sanitize(tn)
		ex.vc.DeclareFun(name, []Sort{SF64}, SInt)
		return TV{Sc{app(SInt, name, a)}, tInt}
	case "int": // conversion no-op in specs
		return TV{arg(0).V, tInt}
	case "real", "float64":
		return TV{Sc{ex.i2f(sc(arg(0).V))}, tFloat}
	case "string":
		v := arg(0)
		if s, ok := v.V.(SliceV); ok {
			return TV{Sc{ex.bytesToStr(st, s)}, tString}
		}
		return v
	}
	if gt, ok := ex.specs.GhostFields[name]; ok && len(x.Args) == 1 {
		// per-object ghost state name(obj)
		v := arg(0)
		var r Term
		if sv, isS := v.V.(SliceV); isS {
			r = sv.Ptr
		} else {
			r = ex.scalarOf(v.V)
		}
		srt := specSort(gt, ex)
		key := "ghost<" + name + ">"
		h := ex.heapGetIn(st, key, ArrSort(SInt, srt))
		t := tInt
		if srt == SBool {
			t = tBool
		}
		return TV{Sc{Sel(h, r)}, t}
	}
	if sf, ok := ex.specs.SFuncs[name]; ok {
		var args []TV
		for i := range x.Args {
			args = append(args, arg(i))
		}
		return ex.callSpecFunc(sf, args, st, env)
	}
	panic(unsupported("spec: unknown function " + name))
}

func (ex *Exec) evalOld(e Expr, os *State, env *Env) TV {
	// identifiers in old() resolve to entry values: params (bound in env) are entry values already;
	// locals are not available.
	oe := &Env{vars: map[string]TV{}, parent: env, old: os}
	oe.fr = nil
	// hide frame so that locals resolve to params
	root := env
	_ = root
	return ex.eval(e, os, &Env{vars: collectVars(env), old: os, pkg: env.pkgOf()})
}

func collectVars(e *Env) map[string]TV {
	m := map[string]TV{}
	var chain []*Env
	for x := e; x != nil; x = x.parent {
		chain = append(chain, x)
	}
	for i := len(chain) - 1; i >= 0; i-- {
		for k, v := range chain[i].vars {
			m[k] = v
		}
	}
	return m
}

func (ex *Exec) callSpecFunc(sf *SpecFunc, args []TV, st *State, env *Env) TV {
	resT := map[Sort]types.Type{SInt: tInt, SBool: tBool, SStr: tString, SF64: tFloat, SReal: tFloat}
	if sf.Body != nil {
		ne := &Env{vars: map[string]TV{}, old: env.oldState(), pkg: env.pkgOf()}
		for i, p := range sf.Params {
			ne.vars[p.Name] = args[i]
		}
		return ex.eval(sf.Body, st, ne)
	}
	var sorts []Sort
	var ts []Term
	for i, p := range sf.Params {
		s := specSort(p.Type, ex)
		sorts = append(sorts, s)
		var t Term
		switch v := args[i].V.(type) {
		case SliceV:
			t = v.Ptr
		default:
			t = ex.scalarOf(args[i].V)
		}
		if t.Sort != s {
			panic(unsupported(fmt.Sprintf("spec func %s: argument %d has sort %s, want %s", sf.Name, i, t.Sort, s)))
		}
		ts = append(ts, t)
	}
	rs := specSort(sf.Result, ex)
	fname := "spec." + sf.Name
	ex.vc.DeclareFun(fname, sorts, rs)
	ex.declSpec[sf.Name] = true
	if len(ts) == 0 {
		return TV{Sc{Term{fname, rs}}, resT[rs]}
	}
	return TV{Sc{app(rs, fname, ts...)}, resT[rs]}
}

// ---------------------------------------------------------------------------
// float / string helpers shared with the executor

func (ex *Exec) fbin(op string, a, b Term) Term {
	cmp := map[string]bool{"flt": true, "fle": true, "fgt": true, "fge": true, "feq": true}
	if ex.realFloats {
		m := map[string]string{"fadd": "+", "fsub": "-", "fmul": "*", "fdiv": "/", "flt": "<", "fle": "<=", "fgt": ">", "fge": ">=", "feq": "="}
		if cmp[op] {
			return app(SBool, m[op], a, b)
		}
		return app(SReal, m[op], a, b)
	}
	if cmp[op] {
		ex.vc.DeclareFun(op, []Sort{SF64, SF64}, SBool)
		return app(SBool, op, a, b)
	}
	ex.vc.DeclareFun(op, []Sort{SF64, SF64}, SF64)
	return app(SF64, op, a, b)
}

func (ex *Exec) fneg(a Term) Term {
	if ex.realFloats {
		return app(SReal, "-", a)
	}
	ex.vc.DeclareFun("fneg", []Sort{SF64}, SF64)
	return app(SF64, "fneg", a)
}

func (ex *Exec) i2f(a Term) Term {
	if ex.realFloats {
		return app(SReal, "to_real", a)
	}
	ex.vc.DeclareFun("i2f", []Sort{SInt}, SF64)
	return app(SF64, "i2f", a)
}

func (ex *Exec) sconcat(a, b Term) Term {
	ex.vc.DeclareFun("sconcat", []Sort{SStr, SStr}, SStr)
	ex.vc.DeclareFun("slen", []Sort{SStr}, SInt)
	r := app(SStr, "sconcat", a, b)
	if !ex.sconcatAx {
		ex.sconcatAx = true
		save := ex.vc.inQuant
		ex.vc.inQuant = 0
		ex.vc.AssumeRaw("(forall ((a Str) (b Str)) (! (= (slen (sconcat a b)) (+ (slen a) (slen b))) :pattern ((sconcat a b))))", "length of a concatenation")
		ex.vc.AssumeRaw("(forall ((a Str)) (! (>= (slen a) 0) :pattern ((slen a))))", "string lengths are non-negative")
		ex.vc.inQuant = save
	}
	return r
}

func (ex *Exec) bytesToStr(st *State, s SliceV) Term {
	key := elemKey(types.Typ[types.Byte], nil)
	h := ex.heapGetIn(st, key, ArrSort(SInt, ArrSort(SInt, SInt)))
	ex.vc.DeclareFun("str_of_bytes", []Sort{ArrSort(SInt, SInt), SInt, SInt}, SStr)
	ex.vc.DeclareFun("slen", []Sort{SStr}, SInt)
	r := app(SStr, "str_of_bytes", Sel(h, s.Ptr), s.Off, s.Len)
	return r
}

func allocIndex(a *ssa.Alloc) int {
	for i, in := range a.Block().Instrs {
		if in == ssa.Instruction(a) {
			return i
		}
	}
	return -1
}
