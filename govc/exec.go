package main

// Symbolic execution of go/ssa (NaiveForm) functions with state merging, loop
// cutting by invariants and obligation emission.

import (
	"fmt"
	"go/ast"
	"go/constant"
	"go/token"
	"go/types"
	"math/big"
	"os"
	"sort"
	"strings"

	"golang.org/x/tools/go/ast/astutil"
	"golang.org/x/tools/go/ssa"
)

type deferred struct {
	call *ssa.CallCommon
	fn   Value
	args []Value
	pos  token.Pos
	cond Term // non-empty: the defer statement was only reached on the paths where cond holds
}

type State struct {
	pc     Term
	cells  map[cellKey]Value
	heap   map[string]Term
	alloc  Term
	ghost  map[string]Term
	defers []deferred
}

func (s *State) clone() *State {
	n := &State{pc: s.pc, alloc: s.alloc}
	n.cells = make(map[cellKey]Value, len(s.cells))
	for k, v := range s.cells {
		n.cells[k] = v
	}
	n.heap = make(map[string]Term, len(s.heap))
	for k, v := range s.heap {
		n.heap[k] = v
	}
	n.ghost = make(map[string]Term, len(s.ghost))
	for k, v := range s.ghost {
		n.ghost[k] = v
	}
	n.defers = append([]deferred(nil), s.defers...)
	return n
}

type Frame struct {
	id       int
	fn       *ssa.Function
	regs     map[ssa.Value]Value
	params   []Value
	free     []Value
	contract *FuncContract
	depth    int
	// entry snapshot of param values for old()
	loopHead map[*ssa.BasicBlock]*State
	results  []exitInfo
	inlineOf *ssa.CallCommon
	parent   *Frame
	curBlock *ssa.BasicBlock
	loops    map[*ssa.BasicBlock]*loopInfo
	edgePC   map[[2]*ssa.BasicBlock]Term
	// calls deferred inside loops (only under pragma unknowncalls havoc)
	loopDefers []string
}

type exitInfo struct {
	st  *State
	res []Value
	pos token.Pos
}

type Exec struct {
	ld               *Loader
	vc               *VC
	specs            *Specs
	st               *State
	top              *Frame
	fr               *Frame
	frames           int
	heap0            map[string]Term
	heapSort         map[string]Sort
	entry            *State
	alloc0           Term
	strs             map[string]Term
	strNames         map[string]string
	floats           map[string]Term
	floatNames       map[string]string
	cellRefs         map[cellKey]Term
	boxes            map[string]boxed
	realFloats       bool
	stubsUsed        map[string]bool
	closedHeap       bool // pragma closedheap yes
	closedDone       map[string]bool
	anchorArgTypes   []types.Type    // static types of the arguments of the anchor being fired (send)
	abstracted       map[string]bool // calls over-approximated under `pragma unknowncalls havoc`
	inlined          map[string]bool
	calleesUsed      map[string]bool
	declSpec         map[string]bool
	safetyOnly       bool // sweep mode: only automatic obligations
	events           []string
	modelSyms        []string
	modelLbls        []string
	paramVals        map[string]Value // entry values by name (params, receiver, free vars)
	retNames         []string
	curPos           token.Pos
	loopStack        []*ssa.BasicBlock
	lockHeld         map[string]bool
	notes            []string
	ranges           map[*ssa.Range]*rangeState
	selectIdx        map[*ssa.Select]Term
	typeTags         []string
	topMods          []modItem
	frameSyms        []string
	loopWritesHeap   map[string]map[string]bool
	eventGuard       Term
	noFrame          bool
	discovery        bool
	loopWritesSnap   map[string]int
	lockHook         func(p PtrV, write bool, pos token.Pos)
	pcParts          map[string]pcPart
	heapForms        map[string]heapForm
	specEq           bool
	inYield          bool
	loadInitial      bool
	loadObj          Term
	curLoop          *loopInfo
	mapWFDone        map[string]bool
	lastCalleeGhosts map[string]TV
	sconcatAx        bool
	lemmasUsed       map[string]bool
}

type boxed struct {
	v Value
	t types.Type
}

func NewExec(ld *Loader, specs *Specs, fnKey string) *Exec {
	return &Exec{ld: ld, vc: NewVC(fnKey), specs: specs, heap0: map[string]Term{}, heapSort: map[string]Sort{},
		strs: map[string]Term{}, strNames: map[string]string{}, floats: map[string]Term{}, floatNames: map[string]string{},
		cellRefs: map[cellKey]Term{}, boxes: map[string]boxed{}, stubsUsed: map[string]bool{}, abstracted: map[string]bool{}, closedDone: map[string]bool{}, inlined: map[string]bool{},
		calleesUsed: map[string]bool{}, declSpec: map[string]bool{}, paramVals: map[string]Value{},
		lemmasUsed: map[string]bool{}, ranges: map[*ssa.Range]*rangeState{}, selectIdx: map[*ssa.Select]Term{}, loopWritesHeap: map[string]map[string]bool{}}
}

func (ex *Exec) fsort() Sort {
	if ex.realFloats {
		return SReal
	}
	return SF64
}

// ---------------------------------------------------------------------------
// heap variables

func (ex *Exec) heapGet(key string, sort Sort) Term {
	if t, ok := ex.st.heap[key]; ok {
		return t
	}
	if t, ok := ex.heap0[key]; ok {
		return t
	}
	name := "H0." + sanitize(key)
	ex.vc.DeclareFun(name, nil, sort)
	t := Term{name, sort}
	ex.heap0[key] = t
	ex.heapSort[key] = sort
	ex.ghostZeroAxiom(key, name, sort)
	return t
}

// ghostZeroAxiom (`pragma closedheap yes`): ghost fields of objects that do not exist yet have their zero value.
func (ex *Exec) ghostZeroAxiom(key, name string, sort Sort) {
	if !ex.closedHeap || !strings.HasPrefix(key, "ghost<") || ex.alloc0.S == "" {
		return
	}
	zero := ""
	switch sort {
	case ArrSort(SInt, SBool):
		zero = "false"
	case ArrSort(SInt, SInt):
		zero = "0"
	}
	if zero == "" {
		return
	}
	ex.vc.fresh++
	r := fmt.Sprintf("r!g%d", ex.vc.fresh)
	ex.vc.AssumeRaw(fmt.Sprintf("(forall ((%s Int)) (! (=> (>= %s %s) (= (select %s %s) %s)) :pattern ((select %s %s))))", r, r, ex.alloc0.S, name, r, zero, name, r), "ghost state of unallocated objects is zero: "+key)
}

// closedEntryHeap (`pragma closedheap yes`, needed when a contract quantifies over all objects of a type):
// the heap at entry is closed - a pointer/map/chan-valued field of an object that existed at entry
// refers to memory that existed at entry (Go has no pointers to unallocated memory). Stated once per field.
func (ex *Exec) closedEntryHeap(key string, l leaf) {
	if !ex.closedHeap || ex.closedDone[key] || l.typ == nil || l.sort != SInt || ex.alloc0.S == "" {
		return
	}
	switch l.typ.Underlying().(type) {
	case *types.Pointer, *types.Map, *types.Chan:
	default:
		return
	}
	h0, ok := ex.heap0[key]
	if !ok {
		return
	}
	ex.closedDone[key] = true
	ex.vc.fresh++
	r := fmt.Sprintf("r!c%d", ex.vc.fresh)
	ex.vc.AssumeRaw(fmt.Sprintf("(forall ((%s Int)) (! (=> (and (<= 0 %s) (< %s %s)) (and (<= 0 (select %s %s)) (< (select %s %s) %s))) :pattern ((select %s %s))))",
		r, r, r, ex.alloc0.S, h0.S, r, h0.S, r, ex.alloc0.S, h0.S, r), "entry heap is closed: "+key)
}

func (ex *Exec) heapGetIn(st *State, key string, sort Sort) Term {
	if st != nil {
		if t, ok := st.heap[key]; ok {
			return t
		}
	}
	if t, ok := ex.heap0[key]; ok {
		return t
	}
	save := ex.st
	ex.st = &State{heap: map[string]Term{}}
	t := ex.heapGet(key, sort)
	ex.st = save
	return t
}

func (ex *Exec) heapSet(key string, t Term) {
	ex.st.heap[key] = ex.vc.Define("H."+key, t)
	ex.noteHeapWrite(key)
}

// Heap updates are recorded as (parent, update) so that joins can merge two heaps that share
// an ancestor by conditional element stores instead of an array-level ite.
type heapUpd struct {
	kind    int // 1: A[r] := v   2: A[r][i] := v   3: A[r] := row
	r, i, v Term
}
type heapForm struct {
	parent Term
	upd    heapUpd
}

func (ex *Exec) hUpdate(key string, srt Sort, u heapUpd) {
	cur := ex.heapGet(key, srt)
	var t Term
	switch u.kind {
	case 1, 3:
		t = Sto(cur, u.r, u.v)
	case 2:
		t = Sto(cur, u.r, Sto(Sel(cur, u.r), u.i, u.v))
	}
	ex.vc.fresh++
	name := fmt.Sprintf("H.%s!%d", sanitize(key), ex.vc.fresh)
	d := &decl{name: name, kind: dDef, text: fmt.Sprintf("(define-fun %s () %s %s)", name, t.Sort, t.S), deps: symbolsOf(t.S), seq: ex.vc.next()}
	ex.vc.decls = append(ex.vc.decls, d)
	ex.vc.byName[name] = d
	nt := Term{name, t.Sort}
	if ex.heapForms == nil {
		ex.heapForms = map[string]heapForm{}
	}
	ex.heapForms[name] = heapForm{parent: cur, upd: u}
	ex.st.heap[key] = nt
	ex.noteHeapWrite(key)
}

func (ex *Exec) hStore1(key string, srt Sort, r, v Term) {
	ex.hUpdate(key, srt, heapUpd{kind: 1, r: r, v: v})
}
func (ex *Exec) hStore2(key string, srt Sort, r, i, v Term) {
	ex.hUpdate(key, srt, heapUpd{kind: 2, r: r, i: i, v: v})
}
func (ex *Exec) hStoreRow(key string, srt Sort, r, row Term) {
	ex.hUpdate(key, srt, heapUpd{kind: 3, r: r, v: row})
}

// mergeHeap merges heap terms of one key over mutually exclusive path conditions.
func (ex *Exec) mergeHeap(conds []Term, ts []Term, hint string) Term {
	same := true
	for _, t := range ts[1:] {
		if t.S != ts[0].S {
			same = false
		}
	}
	if same {
		return ts[0]
	}
	// ancestor chains
	chain := func(t Term) []Term {
		out := []Term{t}
		for {
			f, ok := ex.heapForms[t.S]
			if !ok {
				return out
			}
			t = f.parent
			out = append(out, t)
		}
	}
	chains := make([][]Term, len(ts))
	for i, t := range ts {
		chains[i] = chain(t)
	}
	// lowest common ancestor: first element of chain 0 present in all others
	var base Term
	found := false
	for _, c := range chains[0] {
		all := true
		for _, oc := range chains[1:] {
			in := false
			for _, x := range oc {
				if x.S == c.S {
					in = true
					break
				}
			}
			if !in {
				all = false
				break
			}
		}
		if all {
			base, found = c, true
			break
		}
	}
	if !found {
		acc := ts[len(ts)-1]
		for i := len(ts) - 2; i >= 0; i-- {
			acc = Ite(conds[i], ts[i], acc)
		}
		return ex.vc.Define(hint, acc)
	}
	cur := base
	for k, t := range ts {
		// updates from base to t, oldest first
		var ups []heapUpd
		for x := t; x.S != base.S; {
			f := ex.heapForms[x.S]
			ups = append(ups, f.upd)
			x = f.parent
		}
		for i := len(ups) - 1; i >= 0; i-- {
			u := ups[i]
			switch u.kind {
			case 1, 3:
				cur = Sto(cur, u.r, Ite(conds[k], u.v, Sel(cur, u.r)))
			case 2:
				row := Sel(cur, u.r)
				cur = Sto(cur, u.r, Sto(row, u.i, Ite(conds[k], u.v, Sel(row, u.i))))
			}
			cur = ex.vc.Define(hint, cur)
		}
	}
	return cur
}

func leafSortFix(ex *Exec, l leaf) Sort {
	if l.sort == SF64 {
		return ex.fsort()
	}
	return l.sort
}

// location keys
func objKey(root types.Type, path []int) string {
	if _, ok := root.Underlying().(*types.Struct); ok && transparentStruct(root) {
		return typeName(root) + pathString(root, path)
	}
	return "cell<" + typeName(root) + ">"
}
func elemKey(elem types.Type, path []int) string {
	return "elem<" + typeName(elem) + ">" + pathString(elem, path)
}

// load reads a value of type t (the pointee at p's path).
func (ex *Exec) load(p PtrV) Value { return ex.loadIn(ex.st, p) }

func (ex *Exec) loadIn(st *State, p PtrV) Value {
	t := typeAtPath(p.Root, p.Path)
	switch p.Kind {
	case pOpaque:
		// value of a field of an opaque struct: an uninterpreted function of the struct's abstract state
		state := ex.scalarOf(ex.loadIn(st, *p.Base))
		var ts []Term
		for i, l := range leavesOf(t) {
			ls := leafSortFix(ex, l)
			name := fmt.Sprintf("getfield.%s.%d", p.Fld, i)
			ex.vc.DeclareFun(name, []Sort{SInt}, ls)
			ts = append(ts, app(ls, name, state))
		}
		v := ex.unflatten(t, &ts)
		if st == ex.st {
			ex.assumeLoaded(v, t, st.pc)
		}
		return v
	case pLocal:
		v, ok := st.cells[p.Cell]
		if !ok {
			panic(unsupported("load from unallocated cell " + p.Cell.a.Comment))
		}
		for _, i := range p.Path {
			sv, ok := v.(StructV)
			if !ok {
				panic(unsupported("field path into non-struct cell"))
			}
			v = sv.F[i]
		}
		return v
	case pObj, pElem, pGlobal:
		var base string
		switch p.Kind {
		case pObj:
			base = objKey(p.Root, p.Path)
		case pElem:
			base = elemKey(p.Root, p.Path)
		default:
			base = "glob<" + p.Glob.Pkg.Pkg.Name() + "." + p.Glob.Name() + ">" + pathString(p.Root, p.Path)
		}
		var ts []Term
		initial := true // every leaf is read from the heap as it was at function entry
		for _, l := range leavesOf(t) {
			ls := leafSortFix(ex, l)
			var v Term
			var h Term
			switch p.Kind {
			case pObj:
				h = ex.heapGetIn(st, base+l.path, ArrSort(SInt, ls))
				v = Sel(h, p.Ref)
				ex.closedEntryHeap(base+l.path, l)
			case pElem:
				h = ex.heapGetIn(st, base+l.path, ArrSort(SInt, ArrSort(SInt, ls)))
				v = Sel(Sel(h, p.Ref), p.Idx)
			default:
				h = ex.heapGetIn(st, base+l.path, ls)
				v = h
			}
			if h0, ok := ex.heap0[base+l.path]; !ok || h0.S != h.S {
				initial = false
			}
			ts = append(ts, v)
		}
		val := ex.unflatten(t, &ts)
		if st == ex.st {
			ex.loadInitial = initial
			ex.loadObj = p.Ref
			if p.Kind == pGlobal {
				ex.loadObj = I(0)
			}
			ex.assumeLoaded(val, t, st.pc)
			ex.loadInitial = false
		}
		return val
	}
	panic(unsupported("load: bad pointer"))
}

// assumeLoaded: loaded integers are in range, loaded slice headers are sane.
func (ex *Exec) assumeLoaded(v Value, t types.Type, pc Term) {
	bound := ex.st.alloc
	if ex.loadInitial && ex.alloc0.S != "" && ex.loadObj.S != "" {
		// the entry heap only refers to memory that existed at entry -- for objects that existed at
		// entry themselves (the entry-heap value at a later-allocated ref stands for the allocator's
		// initialisation of that object)
		bound = Ite(Lt(ex.loadObj, ex.alloc0), ex.alloc0, ex.st.alloc)
	}
	_ = bound
	switch x := v.(type) {
	case Sc:
		if isInteger(t) {
			ex.vc.Assume(pc, inRange(x.T, t), "")
		} else if _, isRef := refLike(t); isRef {
			// the heap only holds references to memory that has been allocated
			ex.vc.Assume(pc, And(Ge(x.T, I(0)), Lt(x.T, bound)), "")
		}
	case PtrV:
		if x.Kind == pObj && len(x.Path) == 0 {
			ex.vc.Assume(pc, And(Ge(x.Ref, I(0)), Lt(x.Ref, bound)), "")
		}
	case FuncV:
		if x.Ref.S != "" {
			ex.vc.Assume(pc, And(Ge(x.Ref, I(0)), Lt(x.Ref, bound)), "")
		}
	case SliceV:
		ex.vc.Assume(pc, And(Ge(x.Off, I(0)), Ge(x.Len, I(0)), Le(x.Len, x.Cap), Ge(x.Ptr, I(0)), Lt(x.Ptr, bound), Le(x.Cap, IStr("4611686018427387904")),
			Implies(Eq(x.Ptr, I(0)), And(Eq(x.Len, I(0)), Eq(x.Cap, I(0))))), "")
	case StructV:
		st := t.Underlying().(*types.Struct)
		for i, f := range x.F {
			ex.assumeLoaded(f, st.Field(i).Type(), pc)
		}
	}
}

func setPath(v Value, path []int, nv Value) Value {
	if len(path) == 0 {
		return nv
	}
	sv, ok := v.(StructV)
	if !ok {
		panic(unsupported("store path into non-struct"))
	}
	nf := append([]Value(nil), sv.F...)
	nf[path[0]] = setPath(sv.F[path[0]], path[1:], nv)
	return StructV{F: nf, Typ: sv.Typ}
}

func (ex *Exec) store(p PtrV, v Value) {
	t := typeAtPath(p.Root, p.Path)
	switch p.Kind {
	case pOpaque:
		// writing a field of an opaque struct gives the struct a new, unknown abstract state
		ex.store(*p.Base, Sc{ex.vc.Fresh("opaque."+p.Fld, SInt)})
		return
	case pLocal:
		old, ok := ex.st.cells[p.Cell]
		if !ok {
			panic(unsupported("store to unallocated cell"))
		}
		ex.st.cells[p.Cell] = setPath(old, p.Path, v)
	case pObj, pElem, pGlobal:
		var base string
		switch p.Kind {
		case pObj:
			base = objKey(p.Root, p.Path)
		case pElem:
			base = elemKey(p.Root, p.Path)
		default:
			base = "glob<" + p.Glob.Pkg.Pkg.Name() + "." + p.Glob.Name() + ">" + pathString(p.Root, p.Path)
		}
		ts := ex.flatten(v)
		ls := leavesOf(t)
		if len(ts) != len(ls) {
			panic(unsupported(fmt.Sprintf("store: %d leaves for %d terms (%s)", len(ls), len(ts), typeName(t))))
		}
		for i, l := range ls {
			lsrt := leafSortFix(ex, l)
			key := base + l.path
			switch p.Kind {
			case pObj:
				ex.hStore1(key, ArrSort(SInt, lsrt), p.Ref, ts[i])
			case pElem:
				ex.hStore2(key, ArrSort(SInt, ArrSort(SInt, lsrt)), p.Ref, p.Idx, ts[i])
			default:
				ex.heapGet(key, lsrt)
				ex.heapSet(key, ts[i])
			}
		}
	}
}

func (ex *Exec) newRef() Term {
	r := ex.vc.Define("ref", ex.st.alloc)
	ex.st.alloc = ex.vc.Define("alloc", Add(ex.st.alloc, I(1)))
	ex.noteHeapWrite("$alloc")
	return r
}

// ---------------------------------------------------------------------------
// source text anchors

func (ex *Exec) posString(p token.Pos) string {
	if !p.IsValid() {
		return ""
	}
	pp := ex.ld.fset.Position(p)
	return fmt.Sprintf("%s:%d", shortPath(pp.Filename), pp.Line)
}

func squeeze(s string) string { return strings.Join(strings.Fields(s), " ") }

// srcText returns the text of the innermost AST node of one of the wanted kinds around pos.
func (ex *Exec) srcText(p token.Pos, want func(ast.Node) bool) string {
	if !p.IsValid() {
		return ""
	}
	f := ex.ld.fileOf(p)
	if f == nil {
		return ""
	}
	path, _ := astutil.PathEnclosingInterval(f, p, p)
	for _, n := range path {
		if want(n) {
			return ex.ld.nodeText(n)
		}
	}
	return ""
}

func anyExpr(n ast.Node) bool { _, ok := n.(ast.Expr); return ok }

// ---------------------------------------------------------------------------
// SSA value lookup

func (ex *Exec) val(v ssa.Value) Value {
	switch x := v.(type) {
	case *ssa.Const:
		return ex.constVal(x)
	case *ssa.Function:
		return FuncV{Fn: x}
	case *ssa.Global:
		return PtrV{Kind: pGlobal, Glob: x, Root: x.Type().(*types.Pointer).Elem()}
	case *ssa.Builtin:
		return FuncV{Ref: Term{"builtin." + x.Name(), SInt}}
	case *ssa.Parameter:
		for i, p := range ex.fr.fn.Params {
			if p == x {
				return ex.fr.params[i]
			}
		}
	case *ssa.FreeVar:
		for i, p := range ex.fr.fn.FreeVars {
			if p == x {
				return ex.fr.free[i]
			}
		}
	}
	if r, ok := ex.fr.regs[v]; ok {
		return r
	}
	panic(unsupported(fmt.Sprintf("value %s (%T) has no definition on this path", v.Name(), v)))
}

func (ex *Exec) constVal(c *ssa.Const) Value {
	t := c.Type()
	if c.Value == nil {
		return ex.zeroValue(t)
	}
	switch u := t.Underlying().(type) {
	case *types.Basic:
		switch {
		case u.Info()&types.IsBoolean != 0:
			return Sc{B(constant.BoolVal(c.Value))}
		case u.Info()&types.IsInteger != 0:
			return Sc{IStr(constant.ToInt(c.Value).ExactString())}
		case u.Info()&types.IsFloat != 0:
			return Sc{ex.floatLit(c.Value)}
		case u.Info()&types.IsString != 0:
			return Sc{ex.strConst(constant.StringVal(c.Value))}
		}
	}
	panic(unsupported("constant of type " + typeName(t)))
}

func (ex *Exec) floatLit(v constant.Value) Term {
	if ex.realFloats {
		r, _ := new(big.Rat).SetString(constant.ToFloat(v).ExactString())
		if r == nil {
			f, _ := constant.Float64Val(v)
			r = new(big.Rat).SetFloat64(f)
		}
		num, den := r.Num(), r.Denom()
		s := fmt.Sprintf("(/ %s.0 %s.0)", new(big.Int).Abs(num).String(), den.String())
		if num.Sign() < 0 {
			s = "(- " + s + ")"
		}
		return Term{s, SReal}
	}
	f, _ := constant.Float64Val(v)
	return ex.floatConst(fmt.Sprintf("%v", f))
}

func sc(v Value) Term {
	switch x := v.(type) {
	case Sc:
		return x.T
	}
	panic(unsupported(fmt.Sprintf("expected scalar, got %T", v)))
}

func (ex *Exec) scalarOf(v Value) Term {
	switch x := v.(type) {
	case Sc:
		return x.T
	case PtrV:
		return ex.ptrRef(x)
	case FuncV:
		return ex.funcRef(x)
	}
	panic(unsupported(fmt.Sprintf("expected scalar, got %T", v)))
}

// ---------------------------------------------------------------------------
// merging

func (ex *Exec) mergeValues(conds []Term, vals []Value, hint string) Value {
	same := true
	for i := 1; i < len(vals); i++ {
		if !valueEq(vals[0], vals[i]) {
			same = false
			break
		}
	}
	if same {
		return vals[0]
	}
	switch v0 := vals[0].(type) {
	case Sc:
		t := v0.T
		acc := sc(vals[len(vals)-1])
		for i := len(vals) - 2; i >= 0; i-- {
			acc = Ite(conds[i], sc(vals[i]), acc)
		}
		_ = t
		return Sc{ex.vc.Define(hint, acc)}
	case SliceV:
		pick := func(f func(SliceV) Term) Term {
			acc := f(vals[len(vals)-1].(SliceV))
			for i := len(vals) - 2; i >= 0; i-- {
				acc = Ite(conds[i], f(vals[i].(SliceV)), acc)
			}
			return ex.vc.Define(hint, acc)
		}
		return SliceV{pick(func(s SliceV) Term { return s.Ptr }), pick(func(s SliceV) Term { return s.Off }),
			pick(func(s SliceV) Term { return s.Len }), pick(func(s SliceV) Term { return s.Cap })}
	case StructV:
		out := StructV{Typ: v0.Typ}
		for fi := range v0.F {
			var fs []Value
			for _, v := range vals {
				fs = append(fs, v.(StructV).F[fi])
			}
			out.F = append(out.F, ex.mergeValues(conds, fs, hint))
		}
		return out
	case PtrV:
		// all must be whole-object pointers
		var refs []Value
		for _, v := range vals {
			p := v.(PtrV)
			refs = append(refs, Sc{ex.ptrRef(p)})
		}
		m := ex.mergeValues(conds, refs, hint).(Sc)
		return PtrV{Kind: pObj, Ref: m.T, Root: v0.Root}
	case FuncV:
		var refs []Value
		for _, v := range vals {
			refs = append(refs, Sc{ex.funcRef(v.(FuncV))})
		}
		m := ex.mergeValues(conds, refs, hint).(Sc)
		return FuncV{Ref: m.T}
	case TupleV:
		out := TupleV{}
		for fi := range v0 {
			var fs []Value
			for _, v := range vals {
				fs = append(fs, v.(TupleV)[fi])
			}
			out = append(out, ex.mergeValues(conds, fs, hint))
		}
		return out
	}
	panic(unsupported(fmt.Sprintf("merge of %T", vals[0])))
}

func valueEq(a, b Value) bool {
	switch x := a.(type) {
	case Sc:
		y, ok := b.(Sc)
		return ok && x.T.S == y.T.S
	case SliceV:
		y, ok := b.(SliceV)
		return ok && x.Ptr.S == y.Ptr.S && x.Off.S == y.Off.S && x.Len.S == y.Len.S && x.Cap.S == y.Cap.S
	case StructV:
		y, ok := b.(StructV)
		if !ok || len(x.F) != len(y.F) {
			return false
		}
		for i := range x.F {
			if !valueEq(x.F[i], y.F[i]) {
				return false
			}
		}
		return true
	case PtrV:
		y, ok := b.(PtrV)
		if !ok || x.Kind != y.Kind || x.Cell != y.Cell || x.Ref.S != y.Ref.S || x.Idx.S != y.Idx.S || x.Glob != y.Glob || len(x.Path) != len(y.Path) {
			return false
		}
		for i := range x.Path {
			if x.Path[i] != y.Path[i] {
				return false
			}
		}
		return true
	case FuncV:
		y, ok := b.(FuncV)
		if !ok || x.Fn != y.Fn || x.Ref.S != y.Ref.S || len(x.Free) != len(y.Free) {
			return false
		}
		for i := range x.Free {
			if !valueEq(x.Free[i], y.Free[i]) {
				return false
			}
		}
		return true
	case TupleV:
		y, ok := b.(TupleV)
		if !ok || len(x) != len(y) {
			return false
		}
		for i := range x {
			if !valueEq(x[i], y[i]) {
				return false
			}
		}
		return true
	case nil:
		return b == nil
	}
	return false
}

func (ex *Exec) mergeStates(sts []*State) *State {
	if len(sts) == 1 {
		return sts[0].clone()
	}
	var conds []Term
	for _, s := range sts {
		conds = append(conds, s.pc)
	}
	out := &State{cells: map[cellKey]Value{}, heap: map[string]Term{}, ghost: map[string]Term{}}
	var pcs []Term
	for _, s := range sts {
		pcs = append(pcs, s.pc)
	}
	out.pc = ex.vc.Define("pc", ex.simplifyOr(pcs))
	// cells: only those present in all
	for _, k := range sortedCells(sts[0].cells) {
		var vs []Value
		all := true
		for _, s := range sts {
			v, ok := s.cells[k]
			if !ok {
				all = false
				break
			}
			vs = append(vs, v)
		}
		if all {
			out.cells[k] = ex.mergeValues(conds, vs, "m."+k.a.Comment)
		}
	}
	keys := map[string]bool{}
	for _, s := range sts {
		for k := range s.heap {
			keys[k] = true
		}
	}
	for _, k := range sortedKeys(keys) {
		var vs []Value
		for _, s := range sts {
			if t, ok := s.heap[k]; ok {
				vs = append(vs, Sc{t})
			} else {
				vs = append(vs, Sc{ex.heap0[k]})
			}
		}
		var hts []Term
		for _, v := range vs {
			hts = append(hts, v.(Sc).T)
		}
		out.heap[k] = ex.mergeHeap(conds, hts, "mH."+k)
	}
	gk := map[string]bool{}
	for _, s := range sts {
		for k := range s.ghost {
			gk[k] = true
		}
	}
	for _, k := range sortedKeys(gk) {
		var vs []Value
		for _, s := range sts {
			vs = append(vs, Sc{s.ghost[k]})
		}
		out.ghost[k] = ex.mergeValues(conds, vs, "mG."+k).(Sc).T
	}
	var as []Value
	for _, s := range sts {
		as = append(as, Sc{s.alloc})
	}
	out.alloc = ex.mergeValues(conds, as, "alloc").(Sc).T
	// defers: the common prefix is kept as is; a defer registered on only some of the joined paths
	// (`if c { defer f() }`) becomes conditional on that path's condition
	n := len(sts[0].defers)
	for _, s := range sts[1:] {
		if len(s.defers) < n {
			n = len(s.defers)
		}
	}
	for i := 0; i < n; i++ {
		for _, s := range sts[1:] {
			if s.defers[i].call != sts[0].defers[i].call || s.defers[i].cond.S != sts[0].defers[i].cond.S {
				n = i
				break
			}
		}
	}
	out.defers = append([]deferred(nil), sts[0].defers[:n]...)
	for i, s := range sts {
		for _, d := range s.defers[n:] {
			if d.cond.S == "" {
				d.cond = conds[i]
			} else {
				d.cond = And(d.cond, conds[i])
			}
			out.defers = append(out.defers, d)
		}
	}
	return out
}

// ---------------------------------------------------------------------------
// loops

type loopInfo struct {
	header  *ssa.BasicBlock
	blocks  map[*ssa.BasicBlock]bool
	ordinal int
	minPos  token.Pos
}

func findLoops(fn *ssa.Function) map[*ssa.BasicBlock]*loopInfo {
	loops := map[*ssa.BasicBlock]*loopInfo{}
	for _, b := range fn.Blocks {
		for _, s := range b.Succs {
			if s.Dominates(b) { // back edge b -> s
				li := loops[s]
				if li == nil {
					li = &loopInfo{header: s, blocks: map[*ssa.BasicBlock]bool{s: true}}
					loops[s] = li
				}
				// natural loop: nodes reaching b without passing s
				var stack []*ssa.BasicBlock
				if !li.blocks[b] {
					li.blocks[b] = true
					stack = append(stack, b)
				}
				for len(stack) > 0 {
					x := stack[len(stack)-1]
					stack = stack[:len(stack)-1]
					for _, p := range x.Preds {
						if !li.blocks[p] {
							li.blocks[p] = true
							stack = append(stack, p)
						}
					}
				}
			}
		}
	}
	var ls []*loopInfo
	for _, li := range loops {
		for b := range li.blocks {
			for _, in := range b.Instrs {
				if p := in.Pos(); p.IsValid() && (li.minPos == 0 || p < li.minPos) {
					li.minPos = p
				}
			}
		}
		ls = append(ls, li)
	}
	sort.Slice(ls, func(i, j int) bool {
		if ls[i].minPos != ls[j].minPos {
			return ls[i].minPos < ls[j].minPos
		}
		return len(ls[i].blocks) > len(ls[j].blocks)
	})
	for i, li := range ls {
		li.ordinal = i + 1
	}
	return loops
}

// topoOrder returns blocks in an order where every non-back-edge predecessor comes first.
func topoOrder(fn *ssa.Function) []*ssa.BasicBlock {
	visited := map[*ssa.BasicBlock]bool{}
	var post []*ssa.BasicBlock
	var dfs func(b *ssa.BasicBlock)
	dfs = func(b *ssa.BasicBlock) {
		visited[b] = true
		for _, s := range b.Succs {
			if s.Dominates(b) {
				continue
			}
			if !visited[s] {
				dfs(s)
			}
		}
		post = append(post, b)
	}
	dfs(fn.Blocks[0])
	for i, j := 0, len(post)-1; i < j; i, j = i+1, j-1 {
		post[i], post[j] = post[j], post[i]
	}
	return post
}

// loopWrites collects what a loop may modify: local cells and heap keys.
func (ex *Exec) loopWrites(li *loopInfo) (cells map[*ssa.Alloc]bool, allHeap bool) {
	cells = map[*ssa.Alloc]bool{}
	var rootAlloc func(v ssa.Value) *ssa.Alloc
	rootAlloc = func(v ssa.Value) *ssa.Alloc {
		switch x := v.(type) {
		case *ssa.Alloc:
			return x
		case *ssa.FieldAddr:
			return rootAlloc(x.X)
		case *ssa.IndexAddr:
			if _, ok := x.X.Type().Underlying().(*types.Pointer); ok {
				return rootAlloc(x.X)
			}
		}
		return nil
	}
	for b := range li.blocks {
		for _, in := range b.Instrs {
			switch x := in.(type) {
			case *ssa.Store:
				if a := rootAlloc(x.Addr); a != nil && !a.Heap {
					cells[a] = true
				} else {
					allHeap = true
				}
			case *ssa.MapUpdate, *ssa.Send, *ssa.Go, *ssa.Defer, *ssa.Select, *ssa.RunDefers:
				allHeap = true
			case ssa.CallInstruction:
				allHeap = true
				// callees may write through pointers to local cells
				for _, a := range x.Common().Args {
					if al := rootAlloc(a); al != nil && !al.Heap {
						cells[al] = true
					}
				}
			case *ssa.UnOp:
				if x.Op == token.ARROW {
					allHeap = true
				}
			}
		}
	}
	return
}

// ---------------------------------------------------------------------------
// running a function body

func (ex *Exec) runBody(fr *Frame, st0 *State) []exitInfo {
	saveFr := ex.fr
	ex.fr = fr
	defer func() { ex.fr = saveFr }()
	fn := fr.fn
	if len(fn.Blocks) == 0 {
		panic(unsupported("function without body: " + fn.String()))
	}
	loops := findLoops(fn)
	order := topoOrder(fn)
	in := map[*ssa.BasicBlock][]*State{}
	in[fn.Blocks[0]] = []*State{st0}
	edgeConds := map[[2]*ssa.BasicBlock]Term{}
	fr.loops = loops
	fr.edgePC = edgeConds
	if saveFr != fr {
		fr.parent = saveFr
	}
	var exits []exitInfo
	for _, b := range order {
		sts := in[b]
		if len(sts) == 0 {
			continue
		}
		st := ex.mergeStates(sts)
		ex.st = st
		fr.curBlock = b
		if li := loops[b]; li != nil {
			ex.enterLoop(fr, li, st)
			st = ex.st
		}
		if st.pc.S == "false" {
			continue
		}
		for _, instr := range b.Instrs {
			ex.curPos = instr.Pos()
			switch x := instr.(type) {
			case *ssa.If:
				c := sc(ex.val(x.Cond))
				c = ex.vc.Define("c", c)
				for si, succ := range b.Succs {
					cond := c
					if si == 1 {
						cond = Not(c)
					}
					ns := st.clone()
					ns.pc = ex.branchPC(st.pc, c, si == 1)
					_ = cond
					ex.flow(fr, loops, in, edgeConds, b, succ, ns)
				}
			case *ssa.Jump:
				ex.flow(fr, loops, in, edgeConds, b, b.Succs[0], st.clone())
			case *ssa.Return:
				var res []Value
				for _, r := range x.Results {
					res = append(res, ex.val(r))
				}
				exits = append(exits, exitInfo{st: st.clone(), res: res, pos: x.Pos()})
			case *ssa.Panic:
				ex.doPanic(x)
			default:
				ex.step(instr)
				st = ex.st
			}
		}
	}
	return exits
}

func (ex *Exec) flow(fr *Frame, loops map[*ssa.BasicBlock]*loopInfo, in map[*ssa.BasicBlock][]*State, ec map[[2]*ssa.BasicBlock]Term, from, to *ssa.BasicBlock, ns *State) {
	ec[[2]*ssa.BasicBlock{from, to}] = ns.pc
	if to.Dominates(from) { // back edge
		li := loops[to]
		save := ex.st
		ex.st = ns
		ex.backEdge(fr, li, ns)
		ex.st = save
		return
	}
	in[to] = append(in[to], ns)
}

func (ex *Exec) loopContract(fr *Frame, li *loopInfo) *LoopContract {
	if fr.contract == nil {
		return nil
	}
	return fr.contract.Loops[li.ordinal]
}

func (ex *Exec) enterLoop(fr *Frame, li *loopInfo, st *State) {
	ex.curLoop = li
	defer func() { ex.curLoop = nil }()
	lc := ex.loopContract(fr, li)
	pos := ex.posString(li.minPos)
	if lc == nil {
		if ex.safetyOnly {
			lc = &LoopContract{}
		} else {
			panic(unsupported(fmt.Sprintf("loop %d of %s (%s) has no invariant", li.ordinal, fr.fn.String(), pos)))
		}
	}
	// 1. invariants hold on entry (and the frame so far)
	for i, inv := range lc.Invariants {
		g := ex.evalBool(inv.E, st, nil)
		ex.vc.Oblige("inv-entry", fmt.Sprintf("loop%d/%s", li.ordinal, clauseName(inv, i)), st.pc, g, pos)
	}
	ex.frameCheck(st, fmt.Sprintf("loop%d-entry", li.ordinal), "inv-entry", pos)
	// 2. havoc what the loop may write (the allocation counter first: havocked values may refer to
	// memory allocated by earlier iterations)
	ws := ex.loopWritesHeap[loopID(fr.fn, li)]
	var hk []string
	for _, key := range sortedKeys(ws) {
		switch {
		case key == "$alloc":
			na := ex.vc.Fresh("alloc", SInt)
			ex.vc.Assume(st.pc, Ge(na, st.alloc), "")
			st.alloc = na
		case strings.HasPrefix(key, "ghost:"):
			g := key[len("ghost:"):]
			if old, ok := st.ghost[g]; ok {
				st.ghost[g] = ex.vc.Fresh("hg."+g, old.Sort)
			}
		default:
			srt := ex.heapSort[key]
			if srt == "" {
				continue
			}
			st.heap[key] = ex.vc.Fresh("Hh."+key, srt)
			hk = append(hk, key)
		}
	}
	cells, _ := ex.loopWrites(li)
	for _, k := range sortedCells(st.cells) {
		if k.frame == fr.id && cells[k.a] {
			t := k.a.Type().(*types.Pointer).Elem()
			st.cells[k] = ex.freshValue("h."+k.a.Comment, t, st.pc)
		}
	}
	ex.assumeFrame(st, hk)
	// 3. assume invariants
	for _, inv := range lc.Invariants {
		g := ex.evalBool(inv.E, st, nil)
		ex.vc.Assume(st.pc, g, "invariant")
	}
	if fr.loopHead == nil {
		fr.loopHead = map[*ssa.BasicBlock]*State{}
	}
	fr.loopHead[li.header] = st.clone()
	if !ex.safetyOnly && len(lc.Invariants) > 0 {
		ex.vc.Cover(fmt.Sprintf("loop%d-invariant-satisfiable", li.ordinal), st.pc, TTrue, pos)
	}
}

func clauseName(c Clause, i int) string {
	if c.Label != "" {
		return c.Label
	}
	return fmt.Sprintf("%d", i+1)
}

func (ex *Exec) backEdge(fr *Frame, li *loopInfo, st *State) {
	ex.curLoop = li
	defer func() { ex.curLoop = nil }()
	lc := ex.loopContract(fr, li)
	if lc == nil {
		lc = &LoopContract{}
	}
	pos := ex.posString(li.minPos)
	for i, inv := range lc.Invariants {
		g := ex.evalBool(inv.E, st, nil)
		ex.vc.Oblige("inv-keep", fmt.Sprintf("loop%d/%s", li.ordinal, clauseName(inv, i)), st.pc, g, pos)
	}
	head := fr.loopHead[li.header]
	if lc.Decreases != nil {
		v0 := ex.evalInt(lc.Decreases.E, head, nil)
		v1 := ex.evalInt(lc.Decreases.E, st, nil)
		ex.vc.Oblige("variant", fmt.Sprintf("loop%d", li.ordinal), st.pc, And(Ge(v0, I(0)), Lt(v1, v0)), pos)
	}
	// automatic frame invariant for the heap havocked at the header
	ex.frameCheck(st, fmt.Sprintf("loop%d", li.ordinal), "inv-keep", pos)
	// vacuity: an iteration can be completed (a body that is unreachable under the assumptions would make every
	// obligation inside it hold vacuously); locked like the per-return covers
	if !ex.safetyOnly && os.Getenv("GOVC_NO_EXIT_COVERS") == "" && (ex.fr == ex.top) {
		ex.vc.Cover(fmt.Sprintf("loop%d-iteration-completes", li.ordinal), st.pc, TTrue, pos)
	}
}

// ---------------------------------------------------------------------------
// panics

func (ex *Exec) doPanic(x *ssa.Panic) {
	txt := ex.srcText(x.Pos(), func(n ast.Node) bool { _, ok := n.(*ast.CallExpr); return ok })
	if txt == "" {
		txt = "panic"
	}
	ex.vc.Oblige("nopanic", squeeze(txt), ex.st.pc, TFalse, ex.posString(x.Pos()))
}

type pcPart struct {
	parent Term
	cond   string
	neg    bool
}

// branchPC names the path condition parent && (cond | !cond) and remembers its shape, so that
// the two arms of a diamond merge back to the parent instead of (or (and p c) (and p (not c))).
func (ex *Exec) branchPC(parent, c Term, neg bool) Term {
	cond := c
	if neg {
		cond = Not(c)
	}
	t := And(parent, cond)
	if t.S == "true" || t.S == "false" {
		return t
	}
	ex.vc.fresh++
	name := fmt.Sprintf("pc!%d", ex.vc.fresh)
	d := &decl{name: name, kind: dDef, text: fmt.Sprintf("(define-fun %s () Bool %s)", name, t.S), deps: symbolsOf(t.S), seq: ex.vc.next()}
	ex.vc.decls = append(ex.vc.decls, d)
	ex.vc.byName[name] = d
	if ex.pcParts == nil {
		ex.pcParts = map[string]pcPart{}
	}
	ex.pcParts[name] = pcPart{parent, c.S, neg}
	return Term{name, SBool}
}

func (ex *Exec) simplifyOr(pcs []Term) Term {
	cur := append([]Term(nil), pcs...)
	for changed := true; changed; {
		changed = false
	outer:
		for i := 0; i < len(cur); i++ {
			pi, ok := ex.pcParts[cur[i].S]
			if !ok {
				continue
			}
			for j := i + 1; j < len(cur); j++ {
				pj, ok := ex.pcParts[cur[j].S]
				if ok && pi.parent.S == pj.parent.S && pi.cond == pj.cond && pi.neg != pj.neg {
					cur[i] = pi.parent
					cur = append(cur[:j], cur[j+1:]...)
					changed = true
					break outer
				}
			}
		}
		// duplicates
		seen := map[string]bool{}
		var nd []Term
		for _, c := range cur {
			if !seen[c.S] {
				seen[c.S] = true
				nd = append(nd, c)
			}
		}
		cur = nd
	}
	return Or(cur...)
}

// sortedCells orders the local cells deterministically (frame, block, position) so that the generated
// SMT scripts - and with them the solvers' behaviour - are the same on every run.
func sortedCells(m map[cellKey]Value) []cellKey {
	ks := make([]cellKey, 0, len(m))
	for k := range m {
		ks = append(ks, k)
	}
	sort.Slice(ks, func(i, j int) bool {
		a, b := ks[i], ks[j]
		if a.frame != b.frame {
			return a.frame < b.frame
		}
		if a.a.Block().Index != b.a.Block().Index {
			return a.a.Block().Index < b.a.Block().Index
		}
		return allocIndex(a.a) < allocIndex(b.a)
	})
	return ks
}
