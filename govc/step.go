package main

// Semantics of individual SSA instructions.

import (
	"fmt"
	"go/ast"
	"go/token"
	"go/types"

	"golang.org/x/tools/go/ssa"
)

func (ex *Exec) setReg(v ssa.Value, val Value) { ex.fr.regs[v] = val }

func (ex *Exec) step(instr ssa.Instruction) {
	switch x := instr.(type) {
	case *ssa.DebugRef:
	case *ssa.Alloc:
		t := x.Type().(*types.Pointer).Elem()
		if at, ok := t.Underlying().(*types.Array); ok {
			// backing array for a slice literal / varargs
			r := ex.newRef()
			ex.initArray(r, at)
			ex.setReg(x, PtrV{Kind: pObj, Ref: r, Root: t})
			return
		}
		if x.Heap {
			r := ex.newRef()
			p := PtrV{Kind: pObj, Ref: r, Root: t}
			ex.setReg(x, p)
			ex.store(p, ex.zeroValue(t))
			ex.fireAnchors("alloc", x.Comment, nil, nil, x.Pos())
		} else {
			k := cellKey{x, ex.fr.id}
			ex.st.cells[k] = ex.zeroValue(t)
			ex.setReg(x, PtrV{Kind: pLocal, Cell: k, Root: t})
		}
	case *ssa.Store:
		p := ex.ptrOf(ex.val(x.Addr), x.Pos())
		v := ex.val(x.Val)
		ex.anchorArgTypes = []types.Type{x.Val.Type()}
		ex.fire(true, "store", chanName(x.Addr), nil, []Value{v}, nil, x.Pos()) // `before store x.f: …`
		ex.anchorArgTypes = nil
		ex.checkWrite(p, x.Pos())
		ex.store(p, ex.coerce(v, typeAtPath(p.Root, p.Path)))
		ex.anchorsAfterStore(x, p)
	case *ssa.UnOp:
		ex.setReg(x, ex.unop(x))
	case *ssa.BinOp:
		ex.setReg(x, ex.binop(x))
	case *ssa.Convert:
		ex.setReg(x, ex.convert(x))
	case *ssa.ChangeType:
		ex.setReg(x, ex.val(x.X))
	case *ssa.ChangeInterface:
		ex.setReg(x, ex.val(x.X))
	case *ssa.MakeInterface:
		ex.setReg(x, ex.makeInterface(x))
	case *ssa.FieldAddr:
		p := ex.ptrOf(ex.val(x.X), x.Pos())
		ex.nilCheck(p, x.Pos(), "field "+fieldName(x))
		np := p
		np.Path = append(append([]int(nil), p.Path...), x.Field)
		if !transparentStruct(typeAtPath(p.Root, p.Path)) {
			// field of an opaque library struct: accessed through the struct's abstract state
			ft := x.Type().(*types.Pointer).Elem()
			base := p
			ex.setReg(x, PtrV{Kind: pOpaque, Base: &base, Fld: sanitize(typeName(typeAtPath(p.Root, p.Path))) + "." + fieldName(x), Root: ft})
			return
		}
		ex.setReg(x, np)
	case *ssa.Field:
		v := ex.val(x.X)
		sv, ok := v.(StructV)
		if !ok {
			panic(unsupported("Field of opaque struct " + typeName(x.X.Type())))
		}
		ex.setReg(x, sv.F[x.Field])
	case *ssa.IndexAddr:
		ex.setReg(x, ex.indexAddr(x))
	case *ssa.Index:
		// string or array index
		if isString(x.X.Type()) {
			s := sc(ex.val(x.X))
			i := sc(ex.val(x.Index))
			ex.vc.DeclareFun("slen", []Sort{SStr}, SInt)
			ex.vc.DeclareFun("sbyte", []Sort{SStr, SInt}, SInt)
			ex.oblIdx(x.Pos(), i, app(SInt, "slen", s))
			b := app(SInt, "sbyte", s, i)
			ex.vc.Assume(ex.st.pc, And(Ge(b, I(0)), Le(b, I(255))), "")
			ex.setReg(x, Sc{b})
			return
		}
		panic(unsupported("Index on " + typeName(x.X.Type())))
	case *ssa.Slice:
		ex.setReg(x, ex.sliceOp(x))
	case *ssa.MakeSlice:
		n := sc(ex.val(x.Len))
		c := sc(ex.val(x.Cap))
		et := x.Type().Underlying().(*types.Slice).Elem()
		ex.vc.Oblige("idx", "make:"+ex.anchorText(x.Pos(), callExpr), ex.st.pc, And(Ge(n, I(0)), Le(n, c)), ex.posString(x.Pos()))
		r := ex.newRef()
		ex.zeroBacking(r, et)
		ex.setReg(x, SliceV{r, I(0), n, c})
	case *ssa.MakeMap:
		r := ex.newRef()
		mt := x.Type().Underlying().(*types.Map)
		ex.mapInitEmpty(mt, r)
		ex.setReg(x, Sc{r})
	case *ssa.MakeChan:
		r := ex.newRef()
		ex.vc.DeclareFun("chancap", []Sort{SInt}, SInt)
		ex.vc.Assume(ex.st.pc, Eq(app(SInt, "chancap", r), sc(ex.val(x.Size))), "")
		ex.setReg(x, Sc{r})
		ex.heapGet("ghost<closed>", ArrSort(SInt, SBool))
		ex.hStore1("ghost<closed>", ArrSort(SInt, SBool), r, TFalse) // a new channel is open
		ex.fireAnchors("makechan", "", []Value{ex.val(x.Size)}, nil, x.Pos())
	case *ssa.MakeClosure:
		fn := x.Fn.(*ssa.Function)
		var free []Value
		for _, b := range x.Bindings {
			free = append(free, ex.val(b))
		}
		fvv := FuncV{Fn: fn, Free: free, Ref: ex.newRef()}
		ex.setReg(x, fvv)
		ex.checkObjInv(fvv, x.Pos())
	case *ssa.Lookup:
		ex.setReg(x, ex.lookup(x))
	case *ssa.MapUpdate:
		m := sc(ex.val(x.Map))
		mt := x.Map.Type().Underlying().(*types.Map)
		ex.vc.Oblige("nil", "map-write:"+ex.anchorText(x.Pos(), anyExpr), ex.st.pc, Not(Eq(m, I(0))), ex.posString(x.Pos()))
		ex.checkWriteMap(m, x.Pos())
		ex.mapStore(mt, m, ex.val(x.Key), ex.coerce(ex.val(x.Value), mt.Elem()))
	case *ssa.Extract:
		t := ex.val(x.Tuple).(TupleV)
		ex.setReg(x, t[x.Index])
	case *ssa.TypeAssert:
		ex.setReg(x, ex.typeAssert(x))
	case *ssa.Range:
		ex.setReg(x, ex.rangeInit(x))
	case *ssa.Next:
		ex.setReg(x, ex.rangeNext(x))
	case *ssa.Phi:
		ex.setReg(x, ex.phi(x))
	case *ssa.Call:
		res := ex.doCall(x, x.Common(), x.Pos())
		ex.setReg(x, res)
	case *ssa.Defer:
		c := x.Common()
		d := deferred{call: c, pos: x.Pos()}
		if !c.IsInvoke() {
			d.fn = ex.val(c.Value)
		} else {
			d.fn = ex.val(c.Value)
		}
		for _, a := range c.Args {
			d.args = append(d.args, ex.val(a))
		}
		if len(ex.loopStackOf(x.Block())) > 0 {
			if !ex.abstractUnknown() {
				panic(unsupported("defer inside a loop"))
			}
			// under `pragma unknowncalls havoc`: a call deferred any number of times is over-approximated
			// at function exit by one arbitrary effect (havoc is idempotent and includes "nothing")
			ex.fr.loopDefers = append(ex.fr.loopDefers, calleeName(c))
			break
		}
		ex.st.defers = append(ex.st.defers, d)
	case *ssa.RunDefers:
		ds := ex.st.defers
		ex.st.defers = nil
		ex.runLoopDefers()
		for i := len(ds) - 1; i >= 0; i-- {
			if ds[i].cond.S == "" {
				ex.callValue(nil, ds[i].call, ds[i].fn, ds[i].args, ds[i].pos)
				continue
			}
			// conditional defer: run it on the paths that registered it, skip it on the others
			skip := ex.st.clone()
			skip.pc = ex.vc.Define("pc", And(skip.pc, Not(ds[i].cond)))
			ex.st.pc = ex.vc.Define("pc", And(ex.st.pc, ds[i].cond))
			ex.callValue(nil, ds[i].call, ds[i].fn, ds[i].args, ds[i].pos)
			ex.st = ex.mergeStates([]*State{ex.st, skip})
		}
		ex.runLoopDefers()
	case *ssa.Go:
		ex.doGo(x)
	case *ssa.Send:
		ex.doSend(x)
	case *ssa.Select:
		ex.setReg(x, ex.doSelect(x))
	default:
		panic(unsupported(fmt.Sprintf("instruction %T (%s)", instr, instr.String())))
	}
}

func (ex *Exec) runLoopDefers() {
	seen := map[string]bool{}
	for _, n := range ex.fr.loopDefers {
		if !seen[n] {
			seen[n] = true
			ex.abstractCall("deferred in a loop: "+n, nil, types.NewSignatureType(nil, nil, nil, nil, nil, false))
		}
	}
}

func fieldName(x *ssa.FieldAddr) string {
	st := x.X.Type().Underlying().(*types.Pointer).Elem().Underlying().(*types.Struct)
	return st.Field(x.Field).Name()
}

func (ex *Exec) loopStackOf(b *ssa.BasicBlock) []*loopInfo {
	var out []*loopInfo
	for _, li := range findLoops(b.Parent()) {
		if li.blocks[b] {
			out = append(out, li)
		}
	}
	return out
}

func callExpr(n ast.Node) bool { _, ok := n.(*ast.CallExpr); return ok }

func (ex *Exec) anchorText(p token.Pos, want func(ast.Node) bool) string {
	t := squeeze(ex.srcText(p, want))
	if t == "" {
		return "?"
	}
	if len(t) > 80 {
		t = t[:80]
	}
	return t
}

// ptrOf converts a value used as an address into a PtrV.
func (ex *Exec) ptrOf(v Value, pos token.Pos) PtrV {
	switch p := v.(type) {
	case PtrV:
		return p
	}
	panic(unsupported(fmt.Sprintf("address is %T", v)))
}

func (ex *Exec) nilCheck(p PtrV, pos token.Pos, what string) {
	if p.Kind != pObj {
		return
	}
	if len(p.Path) > 0 {
		return // already checked when the base pointer was formed
	}
	g := Not(Eq(p.Ref, I(0)))
	if ex.knownNonNil(p.Ref) {
		return
	}
	ex.vc.Oblige("nil", ex.anchorText(pos, derefExpr), ex.st.pc, g, ex.posString(pos))
	ex.vc.Assume(ex.st.pc, g, "")
}

func derefExpr(n ast.Node) bool {
	switch n.(type) {
	case *ast.SelectorExpr, *ast.StarExpr, *ast.IndexExpr, *ast.CallExpr, *ast.RangeStmt, *ast.IncDecStmt, *ast.AssignStmt:
		return true
	}
	return false
}

func (ex *Exec) knownNonNil(r Term) bool {
	// refs produced by newRef are defined as "alloc" terms; cheap syntactic test
	return len(r.S) > 4 && (r.S[:4] == "ref!" || r.S[:4] == "glob")
}

// coerce adapts a value to the static destination type (func -> scalar etc.).
func (ex *Exec) coerce(v Value, t types.Type) Value {
	switch t.Underlying().(type) {
	case *types.Interface, *types.Map, *types.Chan:
		switch x := v.(type) {
		case PtrV:
			return Sc{ex.ptrRef(x)}
		case FuncV:
			return Sc{ex.funcRef(x)}
		}
	}
	return v
}

func (ex *Exec) unop(x *ssa.UnOp) Value {
	switch x.Op {
	case token.MUL: // load
		p := ex.ptrOf(ex.val(x.X), x.Pos())
		ex.nilCheck(p, x.Pos(), "load")
		ex.checkRead(p, x.Pos())
		return ex.load(p)
	case token.NOT:
		return Sc{Not(sc(ex.val(x.X)))}
	case token.SUB:
		v := sc(ex.val(x.X))
		if v.Sort == SInt {
			r := ex.vc.Define("neg", app(SInt, "-", v))
			ex.arith(x.Pos(), r, x.Type())
			return Sc{r}
		}
		return Sc{ex.fneg(v)}
	case token.ARROW:
		return ex.doRecv(x)
	case token.XOR:
		v := sc(ex.val(x.X))
		if isUnsigned(x.Type()) {
			_, hi, _ := intRange(x.Type())
			return Sc{Sub(bigTerm(hi), v)}
		}
		return Sc{Sub(app(SInt, "-", v), I(1))}
	}
	panic(unsupported("unary operator " + x.Op.String()))
}

// arith emits the overflow obligation "the exact result fits the type".
func (ex *Exec) arith(pos token.Pos, r Term, t types.Type) {
	if !isInteger(t) {
		return
	}
	if ex.fr.contract != nil && ex.fr.contract.Pragmas["nooverflow"] == "skip" {
		return
	}
	txt := ex.anchorText(pos, func(n ast.Node) bool {
		switch n.(type) {
		case *ast.BinaryExpr, *ast.UnaryExpr, *ast.IncDecStmt, *ast.AssignStmt, *ast.CallExpr:
			return true
		}
		return false
	})
	if ex.fr.contract != nil {
		for _, f := range ex.fr.contract.Fits {
			if f == txt {
				ex.vc.Assume(ex.st.pc, inRange(r, t), "pragma fits")
				return
			}
		}
	}
	ex.vc.Oblige("arith", txt, ex.st.pc, inRange(r, t), ex.posString(pos))
	ex.vc.Assume(ex.st.pc, inRange(r, t), "")
}

func (ex *Exec) binop(x *ssa.BinOp) Value {
	l, r := ex.val(x.X), ex.val(x.Y)
	switch x.Op {
	case token.EQL, token.NEQ:
		eq := ex.valuesEqual(TV{l, x.X.Type()}, TV{r, x.Y.Type()})
		if x.Op == token.NEQ {
			eq = Not(eq)
		}
		return Sc{ex.vc.Define("b", eq)}
	}
	a, b := ex.scalarOf(l), ex.scalarOf(r)
	t := x.X.Type()
	switch {
	case a.Sort == SInt && isInteger(t) || a.Sort == SInt && isTimeTime(t):
		var res Term
		switch x.Op {
		case token.ADD:
			res = Add(a, b)
		case token.SUB:
			res = Sub(a, b)
		case token.MUL:
			res = Mul(a, b)
		case token.QUO, token.REM:
			ex.vc.Oblige("div", ex.anchorText(x.Pos(), binExpr), ex.st.pc, Not(Eq(b, I(0))), ex.posString(x.Pos()))
			ex.vc.Assume(ex.st.pc, Not(Eq(b, I(0))), "")
			op := "tdiv"
			if x.Op == token.REM {
				op = "tmod"
			}
			if isUnsigned(t) {
				// operands are non-negative: floor semantics coincide
				if x.Op == token.QUO {
					res = app(SInt, "div", a, b)
				} else {
					res = app(SInt, "mod", a, b)
				}
			} else {
				res = app(SInt, op, a, b)
			}
		case token.LSS:
			return Sc{Lt(a, b)}
		case token.LEQ:
			return Sc{Le(a, b)}
		case token.GTR:
			return Sc{Gt(a, b)}
		case token.GEQ:
			return Sc{Ge(a, b)}
		case token.SHL:
			if c, ok := x.Y.(*ssa.Const); ok {
				k := c.Int64()
				res = Mul(a, IStr(pow2(int(k))))
			} else {
				panic(unsupported("shift by non-constant"))
			}
		case token.SHR:
			if c, ok := x.Y.(*ssa.Const); ok && isUnsigned(t) {
				k := c.Int64()
				res = app(SInt, "div", a, IStr(pow2(int(k))))
			} else {
				panic(unsupported("shift right (signed or non-constant)"))
			}
		case token.AND, token.OR, token.XOR, token.AND_NOT:
			name := "bit." + map[token.Token]string{token.AND: "and", token.OR: "or", token.XOR: "xor", token.AND_NOT: "andnot"}[x.Op]
			ex.vc.DeclareFun(name, []Sort{SInt, SInt}, SInt)
			res = app(SInt, name, a, b)
			r2 := ex.vc.Define("bits", res)
			ex.vc.Assume(ex.st.pc, inRange(r2, x.Type()), "")
			return Sc{r2}
		default:
			panic(unsupported("integer operator " + x.Op.String()))
		}
		res = ex.vc.Define(opName(x.Op), res)
		ex.arith(x.Pos(), res, x.Type())
		return Sc{res}
	case a.Sort == SBool:
		switch x.Op {
		case token.AND, token.LAND:
			return Sc{And(a, b)}
		case token.OR, token.LOR:
			return Sc{Or(a, b)}
		}
	case a.Sort == SStr:
		switch x.Op {
		case token.ADD:
			return Sc{ex.sconcat(a, b)}
		case token.LSS, token.LEQ, token.GTR, token.GEQ:
			ex.vc.DeclareFun("scmp", []Sort{SStr, SStr}, SInt)
			c := app(SInt, "scmp", a, b)
			switch x.Op {
			case token.LSS:
				return Sc{Lt(c, I(0))}
			case token.LEQ:
				return Sc{Le(c, I(0))}
			case token.GTR:
				return Sc{Gt(c, I(0))}
			default:
				return Sc{Ge(c, I(0))}
			}
		}
	case a.Sort == SF64 || a.Sort == SReal:
		op := map[token.Token]string{token.ADD: "fadd", token.SUB: "fsub", token.MUL: "fmul", token.QUO: "fdiv",
			token.LSS: "flt", token.LEQ: "fle", token.GTR: "fgt", token.GEQ: "fge"}[x.Op]
		if op == "" {
			panic(unsupported("float operator " + x.Op.String()))
		}
		if op == "fdiv" && ex.realFloats && !(ex.top != nil && ex.top.contract != nil && ex.top.contract.Pragmas["fdiv"] == "unchecked") {
			// real division by zero is unspecified in SMT; IEEE gives Inf/NaN. Flag it.
			ex.vc.Oblige("fdiv", ex.anchorText(x.Pos(), binExpr), ex.st.pc, Not(Eq(b, Term{"0.0", SReal})), ex.posString(x.Pos()))
		}
		return Sc{ex.vc.Define("f", ex.fbin(op, a, b))}
	}
	panic(unsupported(fmt.Sprintf("binary operator %s on %s", x.Op, a.Sort)))
}

func binExpr(n ast.Node) bool {
	switch n.(type) {
	case *ast.BinaryExpr, *ast.AssignStmt, *ast.IncDecStmt:
		return true
	}
	return false
}

func opName(op token.Token) string {
	switch op {
	case token.ADD:
		return "add"
	case token.SUB:
		return "sub"
	case token.MUL:
		return "mul"
	case token.QUO:
		return "quo"
	case token.REM:
		return "rem"
	}
	return "op"
}

func pow2(k int) string {
	s := "1"
	v := []byte(s)
	_ = v
	// small helper without big: use shifting on uint64 when possible
	if k < 63 {
		return fmt.Sprintf("%d", uint64(1)<<uint(k))
	}
	r := "18446744073709551616" // 2^64
	if k == 63 {
		return "9223372036854775808"
	}
	if k == 64 {
		return r
	}
	panic(unsupported("shift >= 65"))
}

func (ex *Exec) convert(x *ssa.Convert) Value {
	v := ex.val(x.X)
	from, to := x.X.Type(), x.Type()
	switch {
	case isInteger(from) && isInteger(to):
		t := sc(v)
		if lo, hi, ok := intRange(to); ok {
			flo, fhi, _ := intRange(from)
			if flo.Cmp(lo) >= 0 && fhi.Cmp(hi) <= 0 {
				return v // widening
			}
		}
		if ex.fr.contract != nil && ex.fr.contract.Pragmas["wrapconv"] != "" {
			// intended wrap-around conversions are modelled modulo 2^n
			lo, hi, _ := intRange(to)
			size := new(bigIntT).Sub(hi, lo)
			size.Add(size, bigOne)
			m := app(SInt, "mod", Sub(t, bigTerm(lo)), bigTerm(size))
			return Sc{ex.vc.Define("wrap", Add(m, bigTerm(lo)))}
		}
		txt := ex.anchorText(x.Pos(), callExpr)
		ex.vc.Oblige("arith", "conv:"+txt, ex.st.pc, inRange(t, to), ex.posString(x.Pos()))
		ex.vc.Assume(ex.st.pc, inRange(t, to), "")
		return v
	case isInteger(from) && isFloat(to):
		return Sc{ex.vc.Define("i2f", ex.i2f(sc(v)))}
	case isFloat(from) && isInteger(to):
		t := sc(v)
		var r Term
		if ex.realFloats {
			r = Ite(app(SBool, ">=", t, Term{"0.0", SReal}), app(SInt, "to_int", t), app(SInt, "-", app(SInt, "to_int", app(SReal, "-", t))))
			r = ex.vc.Define("f2i", r)
			// out-of-range conversions are implementation-defined in Go; require in range
			ex.vc.Oblige("arith", "conv:"+ex.anchorText(x.Pos(), callExpr), ex.st.pc, inRange(r, to), ex.posString(x.Pos()))
			ex.vc.Assume(ex.st.pc, inRange(r, to), "")
		} else {
			name := "f2i." + sanitize(typeName(to))
			ex.vc.DeclareFun(name, []Sort{SF64}, SInt)
			r = ex.vc.Define("f2i", app(SInt, name, t))
			ex.vc.Assume(ex.st.pc, inRange(r, to), "")
		}
		return Sc{r}
	case isFloat(from) && isFloat(to):
		return v
	case isString(to):
		if s, ok := v.(SliceV); ok { // []byte -> string
			return Sc{ex.vc.Define("s", ex.bytesToStr(ex.st, s))}
		}
		if isInteger(from) {
			ex.vc.DeclareFun("str_of_rune", []Sort{SInt}, SStr)
			return Sc{app(SStr, "str_of_rune", sc(v))}
		}
	case isString(from):
		if _, ok := to.Underlying().(*types.Slice); ok { // string -> []byte
			s := sc(v)
			ex.vc.DeclareFun("slen", []Sort{SStr}, SInt)
			r := ex.newRef()
			n := ex.vc.Define("n", app(SInt, "slen", s))
			ex.vc.Assume(ex.st.pc, Ge(n, I(0)), "")
			sl := SliceV{r, I(0), n, n}
			ex.vc.Assume(ex.st.pc, Eq(ex.bytesToStr(ex.st, sl), s), "[]byte(s) holds the bytes of s")
			ex.vc.DeclareFun("sbyte", []Sort{SStr, SInt}, SInt)
			key := elemKey(types.Typ[types.Byte], nil)
			h := ex.heapGet(key, ArrSort(SInt, ArrSort(SInt, SInt)))
			ex.vc.fresh++
			q := fmt.Sprintf("k!q%d", ex.vc.fresh)
			ex.vc.Assume(ex.st.pc, Term{fmt.Sprintf("(forall ((%s Int)) (! (=> (and (<= 0 %s) (< %s %s)) (= (select (select %s %s) (idx 0 %s)) (sbyte %s %s))) :pattern ((select (select %s %s) (idx 0 %s)))))",
				q, q, q, n.S, h.S, r.S, q, s.S, q, h.S, r.S, q), SBool}, "bytes of the string")
			return sl
		}
	}
	// pointer / unsafe conversions etc.
	if _, ok := v.(Sc); ok {
		if _, isPtr := to.Underlying().(*types.Pointer); !isPtr {
			return v
		}
	}
	panic(unsupported(fmt.Sprintf("conversion %s <- %s", typeName(to), typeName(from))))
}

func (ex *Exec) makeInterface(x *ssa.MakeInterface) Value {
	v := ex.val(x.X)
	t := x.X.Type()
	switch c := v.(type) {
	case PtrV:
		r := ex.ptrRef(c)
		ex.boxes[r.S] = boxed{v, t}
		ex.assumeDynType(r, t)
		return Sc{r}
	case FuncV:
		r := ex.funcRef(c)
		ex.boxes[r.S] = boxed{v, t}
		return Sc{r}
	}
	// value types: uninterpreted injective box
	ts := ex.flatten(v)
	var sorts []Sort
	for _, tt := range ts {
		sorts = append(sorts, tt.Sort)
	}
	name := "box." + sanitize(typeName(t))
	ex.vc.DeclareFun(name, sorts, SInt)
	var r Term
	if len(ts) == 0 {
		r = Term{name, SInt}
	} else {
		r = app(SInt, name, ts...)
	}
	r = ex.vc.Define("box", r)
	ex.vc.Assume(ex.st.pc, Gt(r, I(0)), "boxed value is a non-nil interface")
	ex.boxes[r.S] = boxed{v, t}
	ex.assumeDynType(r, t)
	return Sc{r}
}

func (ex *Exec) assumeDynType(r Term, t types.Type) {
	ex.vc.DeclareFun("dyntype", []Sort{SInt}, SInt)
	tn := "type." + sanitize(typeName(t))
	if _, ok := ex.vc.byName[tn]; !ok {
		ex.vc.DeclareFun(tn, nil, SInt)
		ex.typeTags = append(ex.typeTags, tn)
		for _, o := range ex.typeTags[:len(ex.typeTags)-1] {
			ex.vc.AssumeRaw(fmt.Sprintf("(not (= %s %s))", tn, o), "")
		}
	}
	ex.vc.Assume(ex.st.pc, Implies(Not(Eq(r, I(0))), Eq(app(SInt, "dyntype", r), Term{tn, SInt})), "")
}

func (ex *Exec) typeAssert(x *ssa.TypeAssert) Value {
	v := sc(ex.val(x.X))
	// statically known box?
	if b, ok := ex.boxes[v.S]; ok && types.Identical(b.t, x.AssertedType) {
		if x.CommaOk {
			return TupleV{b.v, Sc{TTrue}}
		}
		return b.v
	}
	ex.vc.DeclareFun("dyntype", []Sort{SInt}, SInt)
	var isT Term
	if _, isIface := x.AssertedType.Underlying().(*types.Interface); isIface {
		name := "implements." + sanitize(typeName(x.AssertedType))
		ex.vc.DeclareFun(name, []Sort{SInt}, SBool)
		isT = And(Not(Eq(v, I(0))), app(SBool, name, app(SInt, "dyntype", v)))
	} else {
		tn := "type." + sanitize(typeName(x.AssertedType))
		if _, ok := ex.vc.byName[tn]; !ok {
			ex.vc.DeclareFun(tn, nil, SInt)
			ex.typeTags = append(ex.typeTags, tn)
			for _, o := range ex.typeTags[:len(ex.typeTags)-1] {
				ex.vc.AssumeRaw(fmt.Sprintf("(not (= %s %s))", tn, o), "")
			}
		}
		isT = And(Not(Eq(v, I(0))), Eq(app(SInt, "dyntype", v), Term{tn, SInt}))
	}
	isT = ex.vc.Define("isT", isT)
	var res Value
	switch u := x.AssertedType.Underlying().(type) {
	case *types.Pointer:
		res = PtrV{Kind: pObj, Ref: v, Root: u.Elem()}
	case *types.Interface:
		res = Sc{v}
	default:
		// unbox: fresh value of the asserted type tied to the box
		res = ex.freshValue("unbox", x.AssertedType, ex.st.pc)
	}
	if x.CommaOk {
		// on failure the value is the zero value
		z := ex.zeroValue(x.AssertedType)
		m := ex.mergeValues([]Term{isT, Not(isT)}, []Value{res, z}, "ta")
		return TupleV{m, Sc{isT}}
	}
	ex.vc.Oblige("assert", ex.anchorText(x.Pos(), anyExpr), ex.st.pc, isT, ex.posString(x.Pos()))
	ex.vc.Assume(ex.st.pc, isT, "")
	return res
}

func (ex *Exec) phi(x *ssa.Phi) Value {
	// value depends on which predecessor edge was taken; edge conditions were recorded as pcs
	b := x.Block()
	var conds []Term
	var vals []Value
	for i, p := range b.Preds {
		c, ok := ex.fr.edgePC[[2]*ssa.BasicBlock{p, b}]
		if !ok {
			continue
		}
		conds = append(conds, c)
		vals = append(vals, ex.val(x.Edges[i]))
	}
	if len(vals) == 0 {
		panic(unsupported("phi without incoming values"))
	}
	return ex.mergeValues(conds, vals, "phi")
}

// ---------------------------------------------------------------------------
// slices and arrays

func (ex *Exec) oblIdx(pos token.Pos, i, n Term) {
	txt := ex.anchorText(pos, func(n ast.Node) bool {
		switch n.(type) {
		case *ast.IndexExpr, *ast.SliceExpr, *ast.RangeStmt:
			return true
		}
		return false
	})
	g := And(Ge(i, I(0)), Lt(i, n))
	ex.vc.Oblige("idx", txt, ex.st.pc, g, ex.posString(pos))
	ex.vc.Assume(ex.st.pc, g, "")
}

func (ex *Exec) indexAddr(x *ssa.IndexAddr) Value {
	base := ex.val(x.X)
	i := sc(ex.val(x.Index))
	switch b := base.(type) {
	case SliceV:
		et := x.X.Type().Underlying().(*types.Slice).Elem()
		ex.oblIdx(x.Pos(), i, b.Len)
		return PtrV{Kind: pElem, Ref: b.Ptr, Idx: Idx(b.Off, i), Root: et}
	case PtrV: // pointer to array
		at, ok := b.Root.Underlying().(*types.Array)
		if !ok || len(b.Path) != 0 || b.Kind != pObj {
			panic(unsupported("IndexAddr on non-array pointer"))
		}
		ex.oblIdx(x.Pos(), i, I(at.Len()))
		return PtrV{Kind: pElem, Ref: b.Ref, Idx: Idx(I(0), i), Root: at.Elem()}
	}
	panic(unsupported(fmt.Sprintf("IndexAddr on %T", base)))
}

func (ex *Exec) sliceOp(x *ssa.Slice) Value {
	base := ex.val(x.X)
	var lo, hi, max Term
	has := func(v ssa.Value) bool { return v != nil }
	if has(x.Low) {
		lo = sc(ex.val(x.Low))
	} else {
		lo = I(0)
	}
	pos := x.Pos()
	txt := ex.anchorText(pos, func(n ast.Node) bool { _, ok := n.(*ast.SliceExpr); return ok })
	switch b := base.(type) {
	case SliceV:
		if has(x.High) {
			hi = sc(ex.val(x.High))
		} else {
			hi = b.Len
		}
		if has(x.Max) {
			max = sc(ex.val(x.Max))
		} else {
			max = b.Cap
		}
		g := And(Le(I(0), lo), Le(lo, hi), Le(hi, max), Le(max, b.Cap))
		ex.vc.Oblige("idx", txt, ex.st.pc, g, ex.posString(pos))
		ex.vc.Assume(ex.st.pc, g, "")
		return SliceV{b.Ptr, ex.vc.Define("off", Add(b.Off, lo)), ex.vc.Define("len", Sub(hi, lo)), ex.vc.Define("cap", Sub(max, lo))}
	case PtrV:
		at, ok := b.Root.Underlying().(*types.Array)
		if !ok {
			panic(unsupported("Slice of non-array pointer"))
		}
		n := I(at.Len())
		if has(x.High) {
			hi = sc(ex.val(x.High))
		} else {
			hi = n
		}
		if has(x.Max) {
			max = sc(ex.val(x.Max))
		} else {
			max = n
		}
		g := And(Le(I(0), lo), Le(lo, hi), Le(hi, max), Le(max, n))
		ex.vc.Oblige("idx", txt, ex.st.pc, g, ex.posString(pos))
		return SliceV{b.Ref, lo, ex.vc.Define("len", Sub(hi, lo)), ex.vc.Define("cap", Sub(max, lo))}
	case Sc:
		if b.T.Sort == SStr {
			ex.vc.DeclareFun("slen", []Sort{SStr}, SInt)
			ex.vc.DeclareFun("ssub", []Sort{SStr, SInt, SInt}, SStr)
			n := app(SInt, "slen", b.T)
			if has(x.High) {
				hi = sc(ex.val(x.High))
			} else {
				hi = n
			}
			g := And(Le(I(0), lo), Le(lo, hi), Le(hi, n))
			ex.vc.Oblige("idx", txt, ex.st.pc, g, ex.posString(pos))
			ex.vc.Assume(ex.st.pc, g, "")
			if lit, isLit := ex.strNames[b.T.S]; isLit {
				if a, ok1 := litInt(lo); ok1 {
					if z, ok2 := litInt(hi); ok2 && a >= 0 && z <= int64(len(lit)) && a <= z {
						return Sc{ex.strConst(lit[a:z])}
					}
					if !has(x.High) && a >= 0 && a <= int64(len(lit)) {
						return Sc{ex.strConst(lit[a:])}
					}
				}
			}
			r := ex.vc.Define("sub", app(SStr, "ssub", b.T, lo, hi))
			ex.vc.Assume(ex.st.pc, Eq(app(SInt, "slen", r), Sub(hi, lo)), "")
			return Sc{r}
		}
	}
	panic(unsupported(fmt.Sprintf("Slice of %T", base)))
}

// initArray zero-initialises the backing array ref of an array allocation.
func (ex *Exec) initArray(r Term, at *types.Array) {
	ex.zeroBacking(r, at.Elem())
}

func (ex *Exec) zeroBacking(r Term, et types.Type) {
	z := ex.zeroValue(et)
	zs := ex.flatten(ex.coerceZero(z, et))
	for i, l := range leavesOf(et) {
		ls := leafSortFix(ex, l)
		key := elemKey(et, nil) + l.path
		var c Term
		if ls == SInt || ls == SBool || ls == SReal {
			c = Term{fmt.Sprintf("((as const %s) %s)", ArrSort(SInt, ls), zs[i].S), ArrSort(SInt, ls)}
		} else {
			// cvc5 only accepts values in constant arrays: zero row by axiom
			c = ex.vc.Fresh("zerorow", ArrSort(SInt, ls))
			ex.vc.fresh++
			q := fmt.Sprintf("j!q%d", ex.vc.fresh)
			ex.vc.AssumeRaw(fmt.Sprintf("(forall ((%s Int)) (! (= (select %s %s) %s) :pattern ((select %s %s))))", q, c.S, q, zs[i].S, c.S, q), "zero-initialised backing array")
		}
		ex.hStoreRow(key, ArrSort(SInt, ArrSort(SInt, ls)), r, c)
	}
}

func (ex *Exec) coerceZero(v Value, t types.Type) Value { return v }
