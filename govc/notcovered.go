package main

// Clauses of the property statements that no contract decides (DESIGN.md section 9); copied
// into every evidence file so that scope is never mistaken for the whole statement.
var notCovered = map[string][]string{
	"C01": {"not covered: schedule clauses (E3-E5) for the sine and linear pacers: transcendental floating point; a bounded closed-loop stand-in is run and labelled bounded, not proved"},
	"C12": {"not covered: the characters produced by fmt/tabwriter in the text and JSON renderings (library)"},
	"C18": {"not covered: uniformity of math/rand's shuffle, dnscache internals, timing of the happy-eyeballs race"},
}
