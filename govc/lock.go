package main

import "go/token"

// lock discipline: filled in by the concurrency layer (see conc.go when present)
func (ex *Exec) lockCheck(p PtrV, write bool, pos token.Pos) {
	if ex.lockHook != nil {
		ex.lockHook(p, write, pos)
	}
}
