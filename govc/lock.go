package main

import (
	"go/ast"
	"go/token"
	"strings"
)

// Lock discipline: a contract clause `guarded Type.field by <mutex expr>` turns every load and
// store of that field into an obligation held(<mutex expr>) (kind "lock").
func (ex *Exec) lockCheck(p PtrV, write bool, pos token.Pos) {
	if ex.top == nil || ex.top.contract == nil || ex.inYield {
		return
	}
	// captured variables declared `atomic`: every plain load/store is a violation of the discipline
	for _, name := range ex.top.contract.Atomic {
		if strings.Contains(name, ".") && p.Kind == pObj && len(p.Path) > 0 {
			// Type.field: a heap field that may only be accessed through sync/atomic
			if strings.HasSuffix(typeName(p.Root)+pathString(p.Root, p.Path), name) {
				what := "read"
				if write {
					what = "write"
				}
				ex.vc.Oblige("lock", "non-atomic "+what+" of "+name, ex.st.pc, TFalse, ex.posString(pos))
			}
			continue
		}
		for i, fv := range ex.top.fn.FreeVars {
			if fv.Name() != name {
				continue
			}
			if c, ok := ex.top.free[i].(PtrV); ok && c.Kind == pObj && p.Kind == pObj && c.Ref.S == p.Ref.S {
				what := "read"
				if write {
					what = "write"
				}
				ex.vc.Oblige("lock", "non-atomic "+what+" of "+name, ex.st.pc, TFalse, ex.posString(pos))
			}
		}
	}
	if len(ex.top.contract.Guarded) == 0 {
		return
	}
	if p.Kind != pObj || len(p.Path) == 0 {
		return
	}
	name := typeName(p.Root) + pathString(p.Root, p.Path)
	for _, g := range ex.top.contract.Guarded {
		if !strings.HasSuffix(name, g.Label) {
			continue
		}
		env := ex.topEnv()
		env.fr = ex.fr
		mu := ex.eval(g.E, ex.st, env)
		r := ex.scalarOf(mu.V)
		h := ex.heapGet("ghost<held>", ArrSort(SInt, SBool))
		what := "read"
		if write {
			what = "write"
		}
		txt := ex.anchorText(pos, func(n ast.Node) bool {
			switch n.(type) {
			case *ast.SelectorExpr, *ast.AssignStmt, *ast.IncDecStmt:
				return true
			}
			return false
		})
		ex.vc.Oblige("lock", what+" "+g.Label+":"+txt, ex.st.pc, Sel(h, r), ex.posString(pos))
	}
}
