package main

import (
	"encoding/json"
	"flag"
	"fmt"
	"os"
	"path/filepath"
	"runtime"
	"sort"
	"strings"
	"time"
)

var (
	repoDir  = "/repo"
	verifDir = "/verif"
)

func main() {
	if len(os.Args) < 2 {
		fmt.Fprintln(os.Stderr, "usage: govc check|dev|lock|replay|selftest ...")
		os.Exit(2)
	}
	switch os.Args[1] {
	case "dev":
		cmdDev(os.Args[2:])
	case "check":
		os.Exit(cmdCheck(os.Args[2:]))
	case "lock":
		os.Exit(cmdLock(os.Args[2:]))
	case "replay":
		os.Exit(cmdReplay(os.Args[2:]))
	case "selftest":
		os.Exit(cmdSelftest(os.Args[2:]))
	default:
		fmt.Fprintln(os.Stderr, "unknown command", os.Args[1])
		os.Exit(2)
	}
}

func cmdDev(args []string) {
	CallCovers = true
	fs := flag.NewFlagSet("dev", flag.ExitOnError)
	f := fs.String("f", "", "function key (pkgpath::key or unique suffix)")
	timeout := fs.Int("t", 10, "solver timeout (s)")
	dump := fs.Bool("dump", false, "keep SMT files and print failing queries' paths")
	sweep := fs.Bool("sweep", false, "safety-only (no contract needed)")
	lemma := fs.String("lemma", "", "lemma name")
	repo := fs.String("repo", repoDir, "")
	fs.Parse(args)
	ld, specs, err := Load(*repo, verifDir)
	if err != nil {
		fmt.Fprintln(os.Stderr, err)
		os.Exit(2)
	}
	var results []*FuncResult
	if *lemma != "" {
		for _, lm := range specs.Lemmas {
			if lm.Name == *lemma || *lemma == "all" {
				results = append(results, VerifyLemma(ld, specs, lm))
			}
		}
	} else {
		var keys []string
		for k := range ld.funcs {
			if k == *f || strings.HasSuffix(k, "::"+*f) {
				keys = append(keys, k)
			}
		}
		if len(keys) == 0 {
			fmt.Fprintln(os.Stderr, "no such function", *f)
			os.Exit(2)
		}
		for _, k := range keys {
			results = append(results, VerifyFunc(ld, specs, k, *sweep))
		}
	}
	outDir := filepath.Join(os.TempDir(), fmt.Sprintf("govc-dev-%d", os.Getpid()))
	var vcs []*VC
	for _, r := range results {
		if r.OutOfSubset != "" {
			fmt.Printf("OUT-OF-SUBSET %s: %s\n", r.Key, r.OutOfSubset)
		}
		if r.VC != nil {
			vcs = append(vcs, r.VC)
		}
	}
	Discharge(vcs, outDir, *timeout, runtime.NumCPU())
	for _, r := range results {
		if r.VC == nil {
			continue
		}
		fmt.Printf("== %s (passes %d, stubs %v, inlined %v, abstracted %v)\n", r.Key, r.Passes, r.StubsUsed, r.Inlined, r.Abstracted)
		for _, o := range r.VC.obls {
			ok := o.Status == "unsat"
			if o.Cover {
				ok = o.Status == "sat"
			}
			mark := "ok  "
			if !ok {
				mark = "FAIL"
			}
			fmt.Printf("  %s %-7s %-7s %6.2fs %7dB  %s  [%s]\n", mark, o.Status, o.Backend, o.TimeS, o.SMTSize, o.Name, o.Pos)
			if !ok && !o.Cover && o.Status == "sat" {
				var ks []string
				for k := range o.Model {
					ks = append(ks, k)
				}
				sort.Strings(ks)
				for _, k := range ks {
					lbl := r.ParamSyms[k]
					fmt.Printf("         %s (%s) = %s\n", k, lbl, o.Model[k])
				}
			}
			if !ok && o.Status != "sat" && *dump {
				for i, l := range strings.Split(o.Raw, "\n") {
					if i < 4 {
						fmt.Printf("         %s\n", l)
					}
				}
			}
		}
	}
	if !*dump {
		os.RemoveAll(outDir)
	} else {
		fmt.Println("SMT files in", outDir)
	}
}

// ---------------------------------------------------------------------------

type evidence struct {
	PropertyID  string                 `json:"property_id"`
	Tier        string                 `json:"tier"`
	Seed        int64                  `json:"seed"`
	Level       string                 `json:"level"`
	Coverage    map[string]interface{} `json:"coverage"`
	Assumptions []string               `json:"assumptions"`
	WallS       float64                `json:"wall_s"`
	Violations  int                    `json:"violations"`
}

func writeJSON(path string, v interface{}) error {
	_ = os.MkdirAll(filepath.Dir(path), 0o755)
	b, err := json.MarshalIndent(v, "", " ")
	if err != nil {
		return err
	}
	return os.WriteFile(path, append(b, '\n'), 0o644)
}

var startTime = time.Now()
