package main

// Frame conditions (modifies), loop heap havoc, anchors with ghost code, builtins.

import (
	"fmt"
	"go/token"
	"go/types"
	"os"
	"strings"

	"golang.org/x/tools/go/ssa"
)

func keyLevel(key string, srt Sort) int {
	if strings.HasPrefix(key, "visited<") || strings.HasPrefix(key, "glob<") {
		return 0
	}
	return sortLevels(srt)
}

// unchangedOutside: forall r[,i]: guard(r) && !inMod(r,i) => nv[r][i] == old[r][i]
func (ex *Exec) unchangedOutside(items []modItem, key string, srt Sort, old, nv Term, guard func(r Term) Term) Term {
	lvl := keyLevel(key, srt)
	switch lvl {
	case 0:
		for _, it := range items {
			if it.covers(key) {
				return TTrue
			}
		}
		return Eq(nv, old)
	case 1:
		ex.vc.fresh++
		r := Term{fmt.Sprintf("r!q%d", ex.vc.fresh), SInt}
		body := Implies(And(guard(r), Not(ex.inMod(items, key, r, Term{}))), Eq(Sel(nv, r), Sel(old, r)))
		if body.S == "true" {
			return TTrue
		}
		return Term{fmt.Sprintf("(forall ((%s Int)) (! %s :pattern ((select %s %s))))", r.S, body.S, nv.S, r.S), SBool}
	default:
		ex.vc.fresh++
		r := Term{fmt.Sprintf("r!q%d", ex.vc.fresh), SInt}
		is := idxSort(elemSort(srt))
		i := Term{fmt.Sprintf("i!q%d", ex.vc.fresh), is}
		body := Implies(And(guard(r), Not(ex.inMod(items, key, r, i))), Eq(Sel(Sel(nv, r), i), Sel(Sel(old, r), i)))
		if body.S == "true" {
			return TTrue
		}
		return Term{fmt.Sprintf("(forall ((%s Int) (%s %s)) (! %s :pattern ((select (select %s %s) %s))))", r.S, i.S, is, body.S, nv.S, r.S, i.S), SBool}
	}
}

// havocKey gives heap key a new value that agrees with old outside the items.
func (ex *Exec) havocKey(items []modItem, key string, srt Sort, old Term) {
	lvl := keyLevel(key, srt)
	simple := true
	var cov []modItem
	for _, it := range items {
		if it.level < 0 || !it.covers(key) {
			continue
		}
		cov = append(cov, it)
		if it.level == 0 || (it.level == 2 && !it.single && lvl == 2) || (it.level == 1 && lvl == 2) {
			simple = false
		}
	}
	if simple {
		for _, it := range cov {
			switch lvl {
			case 1:
				ex.hStore1(key, srt, it.ref, ex.vc.Fresh("hv."+key, elemSort(srt)))
			case 2:
				inner := elemSort(srt)
				ex.hStore2(key, srt, it.ref, it.lo, ex.vc.Fresh("hv."+key, elemSort(inner)))
			default:
				ex.st.heap[key] = ex.vc.Fresh("hv."+key, srt)
			}
		}
		return
	}
	nv := ex.vc.Fresh("Hc."+key, srt)
	ex.st.heap[key] = nv
	ex.vc.Assume(TTrue, ex.unchangedOutside(items, key, srt, old, nv, func(Term) Term { return TTrue }), "frame of callee")
}

// existedAtEntry: the ref denotes memory that existed when the function under contract was entered.
func (ex *Exec) existedAtEntry(r Term) Term { return And(Ge(r, I(0)), Lt(r, ex.alloc0)) }

// assumeFrame: after a loop havoc, locations that existed at entry and are outside the
// function's modifies clause hold their entry values (checked at loop entry and at every back edge).
func (ex *Exec) assumeFrame(st *State, keys []string) {
	for _, key := range keys {
		srt := ex.heapSort[key]
		if srt == "" || strings.HasPrefix(key, "visited<") || (strings.HasPrefix(key, "ghost<") && !ex.ghostInFrame(key)) {
			continue
		}
		e0, ok := ex.heap0[key]
		if !ok {
			continue
		}
		ex.vc.Assume(TTrue, ex.unchangedOutside(ex.topMods, key, srt, e0, st.heap[key], ex.existedAtEntry), "frame (auto invariant)")
	}
}

// frameCheck: obligations "every location outside modifies that existed at entry holds its entry value".
func (ex *Exec) frameCheck(st *State, where, kind, pos string) {
	if ex.safetyOnly || ex.noFrame {
		return
	}
	for _, key := range sortedKeys(st.heap) {
		srt := ex.heapSort[key]
		cur := st.heap[key]
		e0, ok := ex.heap0[key]
		if !ok || srt == "" || cur.S == e0.S || strings.HasPrefix(key, "visited<") {
			continue
		}
		if strings.HasPrefix(key, "ghost<") {
			// ghost state: checked at function exit only, and only against an explicit modifies clause
			// (a postcondition about a ghost change that `modifies` does not name is contradictory at call sites)
			if !ex.ghostInFrame(key) {
				continue
			}
		}
		lvl := keyLevel(key, srt)
		var goal Term
		switch lvl {
		case 0:
			cov := false
			for _, it := range ex.topMods {
				if it.covers(key) {
					cov = true
				}
			}
			if cov {
				continue
			}
			goal = Eq(cur, e0)
		case 1:
			r := ex.vc.Fresh("frame.r", SInt)
			goal = Implies(And(ex.existedAtEntry(r), Not(ex.inMod(ex.topMods, key, r, Term{}))), Eq(Sel(cur, r), Sel(e0, r)))
			ex.frameSyms = append(ex.frameSyms, r.S)
		default:
			r := ex.vc.Fresh("frame.r", SInt)
			i := ex.vc.Fresh("frame.i", idxSort(elemSort(srt)))
			goal = Implies(And(ex.existedAtEntry(r), Not(ex.inMod(ex.topMods, key, r, i))), Eq(Sel(Sel(cur, r), i), Sel(Sel(e0, r), i)))
			ex.frameSyms = append(ex.frameSyms, r.S, i.S)
		}
		o := ex.vc.Oblige("frame", where+":"+key, st.pc, goal, pos)
		if kind != "" {
			o.Kind = "frame"
		}
	}
}

// ghostInFrame: ghost per-object state is part of the frame of a function with an explicit modifies clause
// (checked at exit and across loops like any heap location), except the environment ghosts.
func (ex *Exec) ghostInFrame(key string) bool {
	return ex.top != nil && ex.top.contract != nil && ex.top.contract.HasMod && !ex.ghostFrameOff(key)
}

// ghostFrameOff: ghost state that models the environment rather than an effect of the function (the clock, lock
// ownership, what other goroutines did) is not part of a function's frame.
func (ex *Exec) ghostFrameOff(key string) bool {
	switch key {
	case "ghost<clock>", "ghost<held>", "ghost<closed>", "ghost<done>":
		return true
	}
	return os.Getenv("GOVC_GHOST_FRAME") == "0"
}

// noteHeapWrite records, for the discovery pass, which loops write which heap keys.
func (ex *Exec) noteHeapWrite(key string) {
	for _, id := range ex.activeLoopIDs() {
		m := ex.loopWritesHeap[id]
		if m == nil {
			m = map[string]bool{}
			ex.loopWritesHeap[id] = m
		}
		m[key] = true
	}
}

func (ex *Exec) activeLoopIDs() []string {
	var out []string
	for fr := ex.fr; fr != nil; fr = fr.parent {
		if fr.curBlock == nil {
			continue
		}
		for _, li := range fr.loops {
			if li.blocks[fr.curBlock] {
				out = append(out, loopID(fr.fn, li))
			}
		}
	}
	return out
}

func loopID(fn *ssa.Function, li *loopInfo) string {
	return fmt.Sprintf("%s#%d", fn.String(), li.ordinal)
}

// ---------------------------------------------------------------------------
// anchors

func anchorMatches(at *AtClause, kind, name string) bool {
	k, pat := firstWord(at.Anchor)
	if k != kind {
		return false
	}
	if pat == "" {
		return true
	}
	return name == pat || strings.HasSuffix(name, "."+pat) || strings.HasSuffix(name, ")."+pat)
}

func (ex *Exec) fireAnchorsBefore(kind, name string, c *ssa.CallCommon, args []Value, pos token.Pos) {
	ex.fire(true, kind, name, c, args, nil, pos)
}

func (ex *Exec) fireAnchors(kind, name string, args []Value, res Value, pos token.Pos) {
	ex.fire(false, kind, name, nil, args, res, pos)
}

func (ex *Exec) fireAnchorsCall(kind, name string, c *ssa.CallCommon, args []Value, res Value, pos token.Pos) {
	ex.fire(false, kind, name, c, args, res, pos)
}

func (ex *Exec) fire(before bool, kind, name string, c *ssa.CallCommon, args []Value, res Value, pos token.Pos) {
	if ex.top == nil || ex.top.contract == nil {
		return
	}
	// anchors name instructions of the function under contract and of its own closures; code of
	// other functions inlined into it (helpers) does not fire them
	if ex.fr != nil && ex.fr != ex.top {
		own := false
		for f := ex.fr.fn; f != nil; f = f.Parent() {
			if f == ex.top.fn {
				own = true
				break
			}
		}
		if !own {
			return
		}
	}
	for _, at := range ex.top.contract.Ats {
		if at.Before != before || !anchorMatches(at, kind, name) {
			continue
		}
		at.hits++
		if at.sites == nil {
			at.sites = map[token.Pos]bool{}
		}
		at.sites[pos] = true
		env := ex.topEnv()
		env = env.child()
		env.fr = ex.fr
		for i, a := range args {
			var t types.Type
			if c != nil {
				off := 0
				if c.IsInvoke() {
					off = 0
				}
				if i-off >= 0 && i-off < len(c.Args) {
					t = c.Args[i-off].Type()
				}
			}
			if t == nil && i < len(ex.anchorArgTypes) {
				t = ex.anchorArgTypes[i]
			}
			env.vars[fmt.Sprintf("arg%d", i)] = TV{a, t}
		}
		if res != nil {
			rt := func(i int) types.Type {
				if c != nil && i < c.Signature().Results().Len() {
					return c.Signature().Results().At(i).Type()
				}
				return nil
			}
			if tv, ok := res.(TupleV); ok {
				for i, r := range tv {
					env.vars[fmt.Sprintf("result%d", i)] = TV{r, rt(i)}
				}
			} else {
				env.vars["result"] = TV{res, rt(0)}
				env.vars["result0"] = TV{res, rt(0)}
			}
		}
		if !before {
			for gn, gv := range ex.lastCalleeGhosts {
				env.vars["callee_"+gn] = gv
			}
		}
		for ai, a := range at.Actions {
			switch a.Kind {
			case "assert":
				g := ex.evalBool(a.C.E, ex.st, env)
				ex.vc.Oblige("event", fmt.Sprintf("%s/%s", at.Anchor, clauseName(a.C, ai)), ex.st.pc, g, ex.posString(pos))
				ex.vc.Assume(ex.st.pc, g, "")
			case "assume":
				g := ex.evalBool(a.C.E, ex.st, env)
				ex.vc.Assume(ex.st.pc, g, "assume at "+at.Anchor)
			case "havoc":
				// havoc <lvalue> or havoc <ghostfield>(obj): another goroutine may have changed it
				if call, ok := a.C.E.(ECall); ok {
					if id, ok := call.Fun.(EIdent); ok {
						if gt, isG := ex.specs.GhostFields[id.Name]; isG {
							r := ex.scalarOf(ex.eval(call.Args[0], ex.st, env).V)
							srt := specSort(gt, ex)
							ex.heapGet("ghost<"+id.Name+">", ArrSort(SInt, srt))
							ex.hStore1("ghost<"+id.Name+">", ArrSort(SInt, srt), r, ex.vc.Fresh("hv."+id.Name, srt))
							continue
						}
					}
				}
				if _, isIdx := a.C.E.(EIndex); isIdx {
					// havoc s[*] / s[i] / m[*]: the same locations a modifies clause would name
					ex.havocItems(ex.evalLoc(a.C.E, ex.st, env), ex.st.clone())
					continue
				}
				p, t := ex.placeOf(a.C.E, ex.st, env)
				ex.store(p, ex.freshValue("hv", t, ex.st.pc))
			case "apply":
				ex.applyLemma(a.C.E, env)
			case "ghost":
				v := sc(ex.eval(a.C.E, ex.st, env).V)
				if i := strings.Index(a.Target, "("); i > 0 && strings.HasSuffix(a.Target, ")") {
					// ghost field update: name(obj) = v
					gname := strings.TrimSpace(a.Target[:i])
					gt, isG := ex.specs.GhostFields[gname]
					if !isG {
						panic(unsupported("ghost field " + gname + " not declared"))
					}
					oe, err := ParseExpr(a.Target[i+1 : len(a.Target)-1])
					if err != nil {
						panic(unsupported(err.Error()))
					}
					obj := ex.scalarOf(ex.eval(oe, ex.st, env).V)
					srt := ArrSort(SInt, specSort(gt, ex))
					key := "ghost<" + gname + ">"
					h := ex.heapGet(key, srt)
					if ex.eventGuard.S != "" {
						v = Ite(ex.eventGuard, v, Sel(h, obj))
					}
					ex.hStore1(key, srt, obj, v)
					continue
				}
				old, ok := ex.st.ghost[a.Target]
				if !ok {
					panic(unsupported("ghost variable " + a.Target + " not declared"))
				}
				if ex.eventGuard.S != "" {
					v = Ite(ex.eventGuard, v, old)
				}
				ex.st.ghost[a.Target] = ex.vc.Define("g."+a.Target, v)
				ex.noteHeapWrite("ghost:" + a.Target)
			}
		}
	}
}

func (ex *Exec) anchorsAfterStore(x *ssa.Store, p PtrV) {
	name := ""
	if fa, ok := x.Addr.(*ssa.FieldAddr); ok {
		name = chanName(fa)
	} else {
		name = chanName(x.Addr)
	}
	ex.anchorArgTypes = []types.Type{x.Val.Type()}
	ex.fireAnchors("store", name, []Value{ex.val(x.Val)}, nil, x.Pos())
	ex.anchorArgTypes = nil
}

// lock discipline hooks (filled in by the concurrency layer)
func (ex *Exec) checkWrite(p PtrV, pos token.Pos)    { ex.lockCheck(p, true, pos) }
func (ex *Exec) checkRead(p PtrV, pos token.Pos)     { ex.lockCheck(p, false, pos) }
func (ex *Exec) checkWriteMap(m Term, pos token.Pos) {}
func (ex *Exec) checkReadMap(m Term, pos token.Pos)  {}

// ---------------------------------------------------------------------------
// builtins

func (ex *Exec) builtin(b *ssa.Builtin, c *ssa.CallCommon, args []Value, pos token.Pos) Value {
	switch b.Name() {
	case "len":
		switch v := args[0].(type) {
		case SliceV:
			return Sc{v.Len}
		case Sc:
			if v.T.Sort == SStr {
				ex.vc.DeclareFun("slen", []Sort{SStr}, SInt)
				n := ex.vc.Define("n", app(SInt, "slen", v.T))
				ex.vc.Assume(ex.st.pc, Ge(n, I(0)), "")
				return Sc{n}
			}
			if mt, ok := c.Args[0].Type().Underlying().(*types.Map); ok {
				n := ex.vc.Define("n", ex.mapLen(ex.st, mt, v.T))
				ex.vc.Assume(ex.st.pc, Ge(n, I(0)), "")
				return Sc{n}
			}
			if _, ok := c.Args[0].Type().Underlying().(*types.Chan); ok {
				ex.vc.DeclareFun("chanlen", []Sort{SInt}, SInt)
				return Sc{app(SInt, "chanlen", v.T)}
			}
		}
	case "cap":
		switch v := args[0].(type) {
		case SliceV:
			return Sc{v.Cap}
		case Sc:
			ex.vc.DeclareFun("chancap", []Sort{SInt}, SInt)
			n := ex.vc.Define("n", app(SInt, "chancap", v.T))
			ex.vc.Assume(ex.st.pc, Ge(n, I(0)), "")
			return Sc{n}
		}
	case "append":
		return ex.doAppend(c, args, pos)
	case "copy":
		return ex.doCopy(c, args, pos)
	case "delete":
		mt := c.Args[0].Type().Underlying().(*types.Map)
		ex.mapDelete(mt, sc(args[0]), args[1])
		return TupleV{}
	case "close":
		ch := sc(args[0])
		key := "ghost<closed>"
		h := ex.heapGet(key, ArrSort(SInt, SBool))
		ex.vc.Oblige("nopanic", "close of closed or nil channel:"+chanName(c.Args[0]), ex.st.pc, And(Not(Eq(ch, I(0))), Not(Sel(h, ch))), ex.posString(pos))
		ex.hStore1(key, ArrSort(SInt, SBool), ch, TTrue)
		ex.fireAnchors("close", chanName(c.Args[0]), args, nil, pos)
		return TupleV{}
	case "ssa:deferstack":
		return Sc{I(0)}
	case "ssa:wrapnilchk":
		return args[0]
	case "min", "max":
		a, bb := sc(args[0]), sc(args[1])
		if a.Sort == SInt {
			op := "imin"
			if b.Name() == "max" {
				op = "imax"
			}
			return Sc{app(SInt, op, a, bb)}
		}
	case "print", "println":
		return TupleV{}
	}
	panic(unsupported("builtin " + b.Name()))
}

func (ex *Exec) doAppend(c *ssa.CallCommon, args []Value, pos token.Pos) Value {
	st := c.Args[0].Type().Underlying().(*types.Slice)
	et := st.Elem()
	s := args[0].(SliceV)
	var t SliceV
	var strSrc Term
	switch a := args[1].(type) {
	case SliceV:
		t = a
	case Sc: // append([]byte, string...)
		strSrc = a.T
		ex.vc.DeclareFun("slen", []Sort{SStr}, SInt)
		t = SliceV{I(0), I(0), app(SInt, "slen", a.T), I(0)}
	}
	newLen := ex.vc.Define("len", Add(s.Len, t.Len))
	inplace := ex.vc.Define("inplace", Le(newLen, s.Cap))
	k := staticInt(t.Len)
	leaves := leavesOf(et)
	// The new backing array nr is allocated in both cases (in the in-place case it is unreachable
	// garbage), so its row is stored unconditionally; the in-place writes are conditional element
	// stores. No array-level ite is needed.
	nr := ex.newRef()
	ncap := ex.vc.Fresh("cap", SInt)
	ex.vc.Assume(ex.st.pc, And(Ge(ncap, newLen), Le(ncap, IStr("4611686018427387904"))), "capacity after growth")
	for _, l := range leaves {
		ls := leafSortFix(ex, l)
		key := elemKey(et, nil) + l.path
		hs := ArrSort(SInt, ArrSort(SInt, ls))
		h := ex.heapGet(key, hs)
		srcArr := Sel(h, t.Ptr)
		oldRow := Sel(h, s.Ptr)
		if k >= 0 && k <= 8 && strSrc.S == "" {
			// fresh array: quantified prefix copy + explicit tail
			na := ex.vc.Fresh("newarr", ArrSort(SInt, ls))
			ex.vc.fresh++
			q := fmt.Sprintf("j!q%d", ex.vc.fresh)
			ex.vc.Assume(ex.st.pc, Term{fmt.Sprintf("(forall ((%s Int)) (! (=> (and (<= 0 %s) (< %s %s)) (= (select %s (idx 0 %s)) (select %s (idx %s %s)))) :pattern ((select %s (idx 0 %s)))))",
				q, q, q, s.Len.S, na.S, q, oldRow.S, s.Off.S, q, na.S, q), SBool}, "append copies the old elements")
			a2 := na
			var srcVals []Term
			for j := 0; j < k; j++ {
				sv := ex.vc.Define("appended", Sel(srcArr, Idx(t.Off, I(int64(j)))))
				srcVals = append(srcVals, sv)
				a2 = Sto(a2, Idx(I(0), Add(s.Len, I(int64(j)))), sv)
			}
			ex.hStoreRow(key, hs, nr, a2)
			for j := 0; j < k; j++ {
				ix := Idx(s.Off, Add(s.Len, I(int64(j))))
				cur := ex.heapGet(key, hs)
				ex.hStore2(key, hs, s.Ptr, ix, Ite(inplace, srcVals[j], Sel(Sel(cur, s.Ptr), ix)))
			}
		} else {
			if strSrc.S != "" {
				ex.vc.DeclareFun("sbyte", []Sort{SStr, SInt}, SInt)
			}
			srcAt := func(j string) string {
				if strSrc.S != "" {
					return fmt.Sprintf("(sbyte %s %s)", strSrc.S, j)
				}
				return fmt.Sprintf("(select %s (idx %s %s))", srcArr.S, t.Off.S, j)
			}
			na := ex.vc.Fresh("newarr", ArrSort(SInt, ls))
			ex.vc.fresh++
			q2 := fmt.Sprintf("j!q%d", ex.vc.fresh)
			ex.vc.Assume(ex.st.pc, Term{fmt.Sprintf("(forall ((%s Int)) (! (=> (and (<= 0 %s) (< %s %s)) (= (select %s (idx 0 %s)) (ite (< %s %s) (select %s (idx %s %s)) %s))) :pattern ((select %s (idx 0 %s)))))",
				q2, q2, q2, newLen.S, na.S, q2, q2, s.Len.S, oldRow.S, s.Off.S, q2, srcAt("(- "+q2+" "+s.Len.S+")"), na.S, q2), SBool}, "append into a new array")
			ia := ex.vc.Fresh("inplarr", ArrSort(SInt, ls))
			ex.vc.fresh++
			q := fmt.Sprintf("j!q%d", ex.vc.fresh)
			base := Add(s.Off, s.Len)
			ex.vc.Assume(ex.st.pc, Term{fmt.Sprintf("(forall ((%s Int)) (! (= (select %s %s) (ite (and %s (<= %s %s) (< %s (+ %s %s))) %s (select %s %s))) :pattern ((select %s %s))))",
				q, ia.S, q, inplace.S, base.S, q, q, base.S, t.Len.S, srcAt("(- "+q+" "+base.S+")"), oldRow.S, q, ia.S, q), SBool}, "append in place")
			ex.hStoreRow(key, hs, nr, na)
			ex.hStoreRow(key, hs, s.Ptr, ia)
		}
	}
	ex.noteAppend(s, inplace, pos)
	return SliceV{
		ex.vc.Define("ptr", Ite(inplace, s.Ptr, nr)),
		ex.vc.Define("off", Ite(inplace, s.Off, I(0))),
		newLen,
		ex.vc.Define("cap", Ite(inplace, s.Cap, ncap)),
	}
}

func staticInt(t Term) int {
	var n int
	if _, err := fmt.Sscanf(t.S, "%d", &n); err == nil && fmt.Sprint(n) == t.S {
		return n
	}
	return -1
}

func (ex *Exec) doCopy(c *ssa.CallCommon, args []Value, pos token.Pos) Value {
	dt := c.Args[0].Type().Underlying().(*types.Slice)
	et := dt.Elem()
	d := args[0].(SliceV)
	var sLen, sPtr, sOff Term
	var strSrc Term
	switch a := args[1].(type) {
	case SliceV:
		sLen, sPtr, sOff = a.Len, a.Ptr, a.Off
	case Sc:
		strSrc = a.T
		ex.vc.DeclareFun("slen", []Sort{SStr}, SInt)
		ex.vc.DeclareFun("sbyte", []Sort{SStr, SInt}, SInt)
		sLen = app(SInt, "slen", a.T)
	}
	n := ex.vc.Define("n", app(SInt, "imin", d.Len, sLen))
	for _, l := range leavesOf(et) {
		ls := leafSortFix(ex, l)
		key := elemKey(et, nil) + l.path
		h := ex.heapGet(key, ArrSort(SInt, ArrSort(SInt, ls)))
		na := ex.vc.Fresh("copied", ArrSort(SInt, ls))
		ex.vc.fresh++
		q := fmt.Sprintf("j!q%d", ex.vc.fresh)
		var src string
		if strSrc.S != "" {
			src = fmt.Sprintf("(sbyte %s (- %s %s))", strSrc.S, q, d.Off.S)
		} else {
			src = fmt.Sprintf("(select (select %s %s) (idx %s (- %s %s)))", h.S, sPtr.S, sOff.S, q, d.Off.S)
		}
		ex.vc.Assume(ex.st.pc, Term{fmt.Sprintf("(forall ((%s Int)) (! (= (select %s %s) (ite (and (<= %s %s) (< %s (+ %s %s))) %s (select (select %s %s) %s))) :pattern ((select %s %s))))",
			q, na.S, q, d.Off.S, q, q, d.Off.S, n.S, src, h.S, d.Ptr.S, q, na.S, q), SBool}, "copy")
		ex.hStoreRow(key, ArrSort(SInt, ArrSort(SInt, ls)), d.Ptr, na)
	}
	return Sc{n}
}

func (ex *Exec) noteAppend(s SliceV, inplace Term, pos token.Pos) {}

// applyLemma: `apply name(e1, ..., en)` assumes the instance of a (separately discharged) lemma
// `forall x1..xn :: body` at the given terms.
func (ex *Exec) applyLemma(e Expr, env *Env) {
	call, ok := e.(ECall)
	if !ok {
		panic(unsupported("apply: want lemma(args)"))
	}
	name := call.Fun.(EIdent).Name
	var lm *Lemma
	for _, l := range ex.specs.Lemmas {
		if l.Name == name {
			lm = l
		}
	}
	if lm == nil {
		panic(unsupported("apply: unknown lemma " + name))
	}
	q, ok := lm.C.E.(EQuant)
	if !ok || !q.Forall || len(q.Vars) != len(call.Args) {
		panic(unsupported("apply: lemma " + name + " is not a forall over as many variables as arguments given"))
	}
	ne := &Env{vars: map[string]TV{}, pkg: env.pkgOf()}
	for i, v := range q.Vars {
		ne.vars[v.Name] = ex.eval(call.Args[i], ex.st, env)
	}
	g := ex.evalBool(q.Body, ex.st, ne)
	ex.vc.Assume(ex.st.pc, g, "instance of lemma "+name)
	ex.lemmasUsed[name] = true
}
