package main

// Contract files: structure parser and expression parser.

import (
	"fmt"
	"go/token"
	"os"
	"strconv"
	"strings"
	"unicode"
)

// ---------------------------------------------------------------- expression AST

type Expr interface{}

type EIdent struct{ Name string }
type EInt struct{ Val string }
type EBool struct{ Val bool }
type EFloat struct{ Val string }
type EStr struct{ Val string }
type EBin struct {
	Op   string
	L, R Expr
}
type EUn struct {
	Op string
	X  Expr
}
type ECall struct {
	Fun  Expr
	Args []Expr
}
type EIndex struct{ X, I Expr }
type ESlice struct{ X, Lo, Hi Expr }
type ESel struct {
	X    Expr
	Name string
}
type QVar struct{ Name, Type string }
type EQuant struct {
	Forall bool
	Vars   []QVar
	Body   Expr
}
type ECond struct{ C, A, B Expr }
type EStar struct{ X Expr } // *p (deref) or, as index, "all elements"
type EAddr struct{ X Expr } // &lvalue

// ---------------------------------------------------------------- lexer

type tok struct {
	kind string // id int str op eof
	text string
}

func lex(s string) ([]tok, error) {
	var ts []tok
	i := 0
	for i < len(s) {
		c := s[i]
		switch {
		case c == ' ' || c == '\t' || c == '\n':
			i++
		case c == '/' && i+1 < len(s) && s[i+1] == '/':
			i = len(s) // trailing comment
		case unicode.IsLetter(rune(c)) || c == '_':
			j := i
			for j < len(s) && (unicode.IsLetter(rune(s[j])) || unicode.IsDigit(rune(s[j])) || s[j] == '_' || s[j] == '$') {
				j++
			}
			ts = append(ts, tok{"id", s[i:j]})
			i = j
		case unicode.IsDigit(rune(c)):
			j := i
			for j < len(s) && (unicode.IsDigit(rune(s[j])) || s[j] == '_' || s[j] == 'x' || (s[j] >= 'a' && s[j] <= 'f') || (s[j] >= 'A' && s[j] <= 'F')) {
				j++
			}
			if j < len(s) && s[j] == '.' && j+1 < len(s) && unicode.IsDigit(rune(s[j+1])) {
				j++
				for j < len(s) && unicode.IsDigit(rune(s[j])) {
					j++
				}
				ts = append(ts, tok{"float", s[i:j]})
				i = j
				continue
			}
			ts = append(ts, tok{"int", strings.ReplaceAll(s[i:j], "_", "")})
			i = j
		case c == '"':
			j := i + 1
			for j < len(s) && s[j] != '"' {
				if s[j] == '\\' {
					j++
				}
				j++
			}
			if j >= len(s) {
				return nil, fmt.Errorf("unterminated string in %q", s)
			}
			v, err := strconv.Unquote(s[i : j+1])
			if err != nil {
				return nil, err
			}
			ts = append(ts, tok{"str", v})
			i = j + 1
		case c == '\'':
			// rune literal -> int
			j := i + 1
			for j < len(s) && s[j] != '\'' {
				if s[j] == '\\' {
					j++
				}
				j++
			}
			v, _, _, err := strconv.UnquoteChar(s[i+1:j], '\'')
			if err != nil {
				return nil, err
			}
			ts = append(ts, tok{"int", strconv.Itoa(int(v))})
			i = j + 1
		default:
			ops := []string{"<==>", "==>", "::", "==", "!=", "<=", ">=", "&&", "||", "<", ">", "&", "+", "-", "*", "/", "%", "!", "(", ")", "[", "]", ".", ",", "?", ":", "{", "}", ";", "="}
			matched := false
			for _, op := range ops {
				if strings.HasPrefix(s[i:], op) {
					ts = append(ts, tok{"op", op})
					i += len(op)
					matched = true
					break
				}
			}
			if !matched {
				return nil, fmt.Errorf("unexpected character %q in %q", c, s)
			}
		}
	}
	ts = append(ts, tok{"eof", ""})
	return ts, nil
}

// ---------------------------------------------------------------- parser

type parser struct {
	ts  []tok
	pos int
	src string
}

func (p *parser) peek() tok { return p.ts[p.pos] }
func (p *parser) next() tok { t := p.ts[p.pos]; p.pos++; return t }
func (p *parser) isOp(op string) bool {
	t := p.peek()
	return t.kind == "op" && t.text == op
}
func (p *parser) expectOp(op string) error {
	if !p.isOp(op) {
		return fmt.Errorf("expected %q at token %d (%q) in %q", op, p.pos, p.peek().text, p.src)
	}
	p.pos++
	return nil
}

func ParseExpr(s string) (Expr, error) {
	ts, err := lex(s)
	if err != nil {
		return nil, err
	}
	p := &parser{ts: ts, src: s}
	e, err := p.parseExpr(0)
	if err != nil {
		return nil, err
	}
	if p.peek().kind != "eof" {
		return nil, fmt.Errorf("trailing tokens at %q in %q", p.peek().text, s)
	}
	return e, nil
}

var binPrec = map[string]int{
	"<==>": 1, "==>": 2, "||": 4, "&&": 5,
	"==": 6, "!=": 6, "<": 6, "<=": 6, ">": 6, ">=": 6,
	"+": 7, "-": 7, "*": 8, "/": 8, "%": 8,
}

func (p *parser) parseExpr(minPrec int) (Expr, error) {
	// quantifiers bind weakest
	if t := p.peek(); t.kind == "id" && (t.text == "forall" || t.text == "exists") {
		return p.parseQuant()
	}
	lhs, err := p.parseUnary()
	if err != nil {
		return nil, err
	}
	for {
		t := p.peek()
		if t.kind != "op" {
			break
		}
		if t.text == "?" && minPrec <= 3 {
			p.next()
			a, err := p.parseExpr(3)
			if err != nil {
				return nil, err
			}
			if err := p.expectOp(":"); err != nil {
				return nil, err
			}
			b, err := p.parseExpr(3)
			if err != nil {
				return nil, err
			}
			lhs = ECond{lhs, a, b}
			continue
		}
		prec, ok := binPrec[t.text]
		if !ok || prec < minPrec {
			break
		}
		p.next()
		var rhs Expr
		if t.text == "==>" { // right assoc
			rhs, err = p.parseExpr(prec)
		} else {
			rhs, err = p.parseExpr(prec + 1)
		}
		if err != nil {
			return nil, err
		}
		lhs = EBin{t.text, lhs, rhs}
	}
	return lhs, nil
}

func (p *parser) parseQuant() (Expr, error) {
	q := p.next()
	var vars []QVar
	for {
		var names []string
		for {
			t := p.next()
			if t.kind != "id" {
				return nil, fmt.Errorf("quantifier: expected variable name in %q", p.src)
			}
			names = append(names, t.text)
			if p.isOp(",") {
				p.next()
				continue
			}
			break
		}
		t := p.next()
		typ := t.text
		if t.kind == "op" && t.text == "*" {
			// pointer-typed variable: ranges over all references, read as pointers to that struct type
			t = p.next()
			typ = "*" + t.text
			if p.isOp(".") {
				p.next()
				t2 := p.next()
				typ += "." + t2.text
			}
		}
		if t.kind != "id" {
			return nil, fmt.Errorf("quantifier: expected type in %q", p.src)
		}
		for _, n := range names {
			vars = append(vars, QVar{n, typ})
		}
		if p.isOp(";") {
			p.next()
			continue
		}
		break
	}
	if err := p.expectOp("::"); err != nil {
		return nil, err
	}
	body, err := p.parseExpr(0)
	if err != nil {
		return nil, err
	}
	return EQuant{q.text == "forall", vars, body}, nil
}

func (p *parser) parseUnary() (Expr, error) {
	t := p.peek()
	if t.kind == "op" {
		switch t.text {
		case "!", "-":
			p.next()
			x, err := p.parseUnary()
			if err != nil {
				return nil, err
			}
			return EUn{t.text, x}, nil
		case "*":
			p.next()
			x, err := p.parseUnary()
			if err != nil {
				return nil, err
			}
			return EStar{x}, nil
		case "&":
			p.next()
			x, err := p.parseUnary()
			if err != nil {
				return nil, err
			}
			return EAddr{x}, nil
		}
	}
	return p.parsePostfix()
}

func (p *parser) parsePostfix() (Expr, error) {
	var e Expr
	t := p.next()
	switch t.kind {
	case "id":
		switch t.text {
		case "true":
			e = EBool{true}
		case "false":
			e = EBool{false}
		default:
			e = EIdent{t.text}
		}
	case "int":
		e = EInt{t.text}
	case "float":
		e = EFloat{t.text}
	case "str":
		e = EStr{t.text}
	case "op":
		if t.text == "(" {
			x, err := p.parseExpr(0)
			if err != nil {
				return nil, err
			}
			if err := p.expectOp(")"); err != nil {
				return nil, err
			}
			e = x
		} else {
			return nil, fmt.Errorf("unexpected %q in %q", t.text, p.src)
		}
	default:
		return nil, fmt.Errorf("unexpected end of expression in %q", p.src)
	}
	for {
		switch {
		case p.isOp("."):
			p.next()
			n := p.next()
			if n.kind != "id" {
				return nil, fmt.Errorf("expected field name after '.' in %q", p.src)
			}
			e = ESel{e, n.text}
		case p.isOp("("):
			p.next()
			var args []Expr
			for !p.isOp(")") {
				a, err := p.parseExpr(0)
				if err != nil {
					return nil, err
				}
				args = append(args, a)
				if p.isOp(",") {
					p.next()
				}
			}
			p.next()
			e = ECall{e, args}
		case p.isOp("["):
			p.next()
			if p.isOp("*") && p.ts[p.pos+1].kind == "op" && p.ts[p.pos+1].text == "]" {
				p.next()
				p.next()
				e = EIndex{e, EStar{nil}}
				continue
			}
			var lo, hi Expr
			var err error
			if !p.isOp(":") {
				lo, err = p.parseExpr(4)
				if err != nil {
					return nil, err
				}
			}
			if p.isOp(":") {
				p.next()
				if !p.isOp("]") {
					hi, err = p.parseExpr(4)
					if err != nil {
						return nil, err
					}
				}
				if err := p.expectOp("]"); err != nil {
					return nil, err
				}
				e = ESlice{e, lo, hi}
			} else {
				if err := p.expectOp("]"); err != nil {
					return nil, err
				}
				e = EIndex{e, lo}
			}
		default:
			return e, nil
		}
	}
}

// ---------------------------------------------------------------- contract structure

type Clause struct {
	Label string
	Text  string
	E     Expr
	Line  int
}

type ParamDecl struct{ Name, Type string }

type GhostDecl struct {
	Name, Type string
	Init       Expr
}

type Action struct {
	Kind   string // assert | assume | ghost | havoc
	Target string // ghost var name
	C      Clause
}

type AtClause struct {
	Anchor   string // e.g. "call p.Pace", "send ticks", "return", "go a.attack", "unlock"
	Count    int    // expected number of matching instructions (0 = at least one)
	Before   bool   // actions run before the instruction (default: after)
	Optional bool   // x*: the anchor may match nothing (assume-only clauses)
	Actions  []Action
	Line     int
	hits     int
	sites    map[token.Pos]bool // distinct instructions that fired this anchor
}

type LoopContract struct {
	Invariants []Clause
	Decreases  *Clause
}

type FuncContract struct {
	Atomic    []string // captured variables that may only be accessed through sync/atomic
	Guarded   []Clause // Label = "Type.field", E = mutex expression: lock discipline
	Rely      []Clause // two-state relation every interference step of other goroutines satisfies
	Shared    []string // ghost fields other goroutines may change (havocked at yield points under Rely)
	Uses      []string // lemmas assumed in this function's VC (each discharged on its own)
	Shapes    []string // `fields <Type> f1 f2 …`: the struct type has exactly these fields, in this order
	DeadExits []string // `deadexit <source text of a return>`: excluded by the preconditions on purpose
	Keeps     []Clause // locations abstracted calls are assumed not to write
	CbInv     []Clause // `cbinvariant [label] expr`: invariant of the state over the calls a library makes to a callback (pragma callback)
	Forbid    []Clause // `forbid [label] call <name>`: the function and its closures contain no such call
	Key       string
	File      string
	Line      int
	Props     []string
	Returns   []string
	Requires  []Clause
	Ensures   []Clause
	Modifies  []Clause
	HasMod    bool
	Inline    bool
	Trusted   bool
	Ghosts    []GhostDecl
	Loops     map[int]*LoopContract
	Ats       []*AtClause
	Pragmas   map[string]string
	Assumes   []Clause // named, listed assumptions (history-length etc.)
	Fits      []string // source texts of arithmetic expressions assumed not to overflow
	// stubs only
	IsStub  bool
	Params  []ParamDecl
	Results []ParamDecl
	// type contracts (func types / interface methods): key "type Decoder" / "iface Pacer.Pace"
}

type Lemma struct {
	Uses    []string // lemmas assumed (each discharged on its own)
	Name    string
	Props   []string
	C       Clause
	Trusted bool
	File    string
}

type SpecFunc struct {
	Name   string
	Params []ParamDecl
	Result string
	Body   Expr
	Axioms []Clause
}

type Specs struct {
	Funcs       map[string]*FuncContract
	Order       []string
	Stubs       map[string]*FuncContract
	Lemmas      []*Lemma
	SFuncs      map[string]*SpecFunc
	Axioms      []Clause          // global axioms over spec functions (assumed; listed)
	Scan        []string          // occurrences of assume / trusted / inline / wraps for the evidence
	GhostFields map[string]string // per-object ghost state: name -> type
}

func NewSpecs() *Specs {
	return &Specs{Funcs: map[string]*FuncContract{}, Stubs: map[string]*FuncContract{}, SFuncs: map[string]*SpecFunc{}, GhostFields: map[string]string{}}
}

var keywords = map[string]bool{
	"func": true, "stub": true, "property": true, "returns": true, "requires": true, "ensures": true,
	"modifies": true, "inline": true, "trusted": true, "ghost": true, "loop": true, "invariant": true,
	"decreases": true, "at": true, "lemma": true, "spec": true, "assume": true, "pragma": true, "axiom": true,
	"before": true, "ghostfield": true, "uses": true, "fields": true, "deadexit": true, "keeps": true, "forbid": true, "cbinvariant": true, "rely": true, "shared": true, "guarded": true, "atomic": true,
}

func firstWord(s string) (string, string) {
	s = strings.TrimSpace(s)
	i := strings.IndexAny(s, " \t")
	if i < 0 {
		return s, ""
	}
	return s[:i], strings.TrimSpace(s[i+1:])
}

func parseClause(text string, line int, file string) (Clause, error) {
	c := Clause{Line: line}
	t := strings.TrimSpace(text)
	if strings.HasPrefix(t, "[") {
		if j := strings.Index(t, "]"); j > 0 {
			c.Label = strings.TrimSpace(t[1:j])
			t = strings.TrimSpace(t[j+1:])
		}
	}
	c.Text = t
	e, err := ParseExpr(t)
	if err != nil {
		return c, fmt.Errorf("%s:%d: %v", file, line, err)
	}
	c.E = e
	return c, nil
}

func parseParams(s string) ([]ParamDecl, error) {
	s = strings.TrimSpace(s)
	s = strings.TrimPrefix(s, "(")
	s = strings.TrimSuffix(s, ")")
	if strings.TrimSpace(s) == "" {
		return nil, nil
	}
	var out []ParamDecl
	var pending []string
	for _, part := range strings.Split(s, ",") {
		part = strings.TrimSpace(part)
		f := strings.Fields(part)
		if len(f) == 1 {
			pending = append(pending, f[0])
			continue
		}
		typ := strings.Join(f[1:], " ")
		for _, n := range pending {
			out = append(out, ParamDecl{n, typ})
		}
		pending = nil
		out = append(out, ParamDecl{f[0], typ})
	}
	for _, n := range pending { // unnamed: type only
		out = append(out, ParamDecl{"", n})
	}
	return out, nil
}

// splitSig splits "name(params) (results)" or "name(params) type".
func splitSig(s string) (name, params, results string, err error) {
	i := strings.Index(s, "(")
	if i < 0 {
		return strings.TrimSpace(s), "", "", nil
	}
	// the name may itself start with "(" for methods: (*T).M(...)
	if i == 0 {
		j := strings.Index(s, ")")
		k := strings.Index(s[j:], "(")
		if k < 0 {
			return strings.TrimSpace(s), "", "", nil
		}
		i = j + k
	}
	name = strings.TrimSpace(s[:i])
	depth := 0
	j := i
	for ; j < len(s); j++ {
		if s[j] == '(' {
			depth++
		} else if s[j] == ')' {
			depth--
			if depth == 0 {
				break
			}
		}
	}
	if j >= len(s) {
		return "", "", "", fmt.Errorf("bad signature %q", s)
	}
	params = s[i : j+1]
	results = strings.TrimSpace(s[j+1:])
	return
}

// ParseSpecFile reads //@ lines of a file.
func (sp *Specs) ParseSpecFile(path string) error {
	data, err := os.ReadFile(path)
	if err != nil {
		return err
	}
	type ln struct {
		text string
		no   int
	}
	var lines []ln
	for i, l := range strings.Split(string(data), "\n") {
		t := strings.TrimSpace(l)
		if !strings.HasPrefix(t, "//@") {
			continue
		}
		t = strings.TrimSpace(t[3:])
		if t == "" {
			continue
		}
		w, _ := firstWord(t)
		if len(lines) > 0 && (!keywords[w] || strings.HasSuffix(strings.TrimSpace(lines[len(lines)-1].text), ";")) { // continuation
			lines[len(lines)-1].text += " " + t
			continue
		}
		lines = append(lines, ln{t, i + 1})
	}
	var cur *FuncContract
	var curLoop *LoopContract
	var curSF *SpecFunc
	for _, l := range lines {
		w, rest := firstWord(l.text)
		fail := func(e error) error { return fmt.Errorf("%s:%d: %v", path, l.no, e) }
		switch w {
		case "func", "stub":
			curLoop, curSF = nil, nil
			name, params, results, err := splitSig(rest)
			if err != nil {
				return fail(err)
			}
			fc := &FuncContract{Key: name, File: path, Line: l.no, Loops: map[int]*LoopContract{}, Pragmas: map[string]string{}}
			if w == "stub" {
				fc.IsStub = true
				fc.Params, _ = parseParams(params)
				if strings.HasPrefix(results, "(") {
					fc.Results, _ = parseParams(results)
				} else if results != "" {
					fc.Results = []ParamDecl{{"result", results}}
				}
				if _, dup := sp.Stubs[name]; dup {
					return fail(fmt.Errorf("duplicate stub %s", name))
				}
				sp.Stubs[name] = fc
			} else {
				if _, dup := sp.Funcs[name]; dup {
					return fail(fmt.Errorf("duplicate contract %s", name))
				}
				sp.Funcs[name] = fc
				sp.Order = append(sp.Order, name)
			}
			cur = fc
		case "lemma":
			curLoop, cur, curSF = nil, nil, nil
			trusted := false
			name, body := firstWord(rest)
			if name == "trusted" {
				trusted = true
				name, body = firstWord(body)
			}
			lm := &Lemma{Name: name, Trusted: trusted, File: path}
			// optional "property Cxx" prefix words
			for strings.HasPrefix(body, "property ") || strings.HasPrefix(body, "uses ") {
				kw, b2 := firstWord(body)
				id, b3 := firstWord(b2)
				if kw == "property" {
					lm.Props = append(lm.Props, id)
				} else {
					lm.Uses = append(lm.Uses, strings.Split(id, ",")...)
				}
				body = b3
			}
			c, err := parseClause(body, l.no, path)
			if err != nil {
				return err
			}
			lm.C = c
			sp.Lemmas = append(sp.Lemmas, lm)
			if trusted {
				sp.Scan = append(sp.Scan, fmt.Sprintf("trusted lemma %s (%s:%d)", name, shortPath(path), l.no))
			}
		case "spec":
			cur, curLoop = nil, nil
			_, r2 := firstWord(rest) // skip "func"
			body := ""
			if i := strings.Index(r2, " = "); i >= 0 {
				body = r2[i+3:]
				r2 = r2[:i]
			}
			name, params, result, err := splitSig(r2)
			if err != nil {
				return fail(err)
			}
			ps, _ := parseParams(params)
			sf := &SpecFunc{Name: name, Params: ps, Result: strings.TrimSpace(result)}
			if body != "" {
				e, err := ParseExpr(body)
				if err != nil {
					return fail(err)
				}
				sf.Body = e
			}
			sp.SFuncs[name] = sf
			curSF = sf
		case "ghostfield":
			f := strings.Fields(rest)
			if len(f) != 2 {
				return fail(fmt.Errorf("ghostfield: want 'ghostfield name type'"))
			}
			sp.GhostFields[f[0]] = f[1]
		case "axiom":
			c, err := parseClause(rest, l.no, path)
			if err != nil {
				return err
			}
			_ = curSF
			sp.Axioms = append(sp.Axioms, c)
			sp.Scan = append(sp.Scan, fmt.Sprintf("axiom %q (%s:%d)", c.Text, shortPath(path), l.no))
		default:
			if cur == nil {
				return fail(fmt.Errorf("%q outside of a func/stub block", w))
			}
			switch w {
			case "property":
				cur.Props = append(cur.Props, strings.Fields(rest)...)
			case "returns":
				r := strings.TrimSuffix(strings.TrimPrefix(strings.TrimSpace(rest), "("), ")")
				for _, n := range strings.Split(r, ",") {
					cur.Returns = append(cur.Returns, strings.TrimSpace(n))
				}
			case "requires", "ensures", "invariant", "decreases", "assume":
				c, err := parseClause(rest, l.no, path)
				if err != nil {
					return err
				}
				switch w {
				case "requires":
					cur.Requires = append(cur.Requires, c)
				case "ensures":
					cur.Ensures = append(cur.Ensures, c)
				case "assume":
					cur.Assumes = append(cur.Assumes, c)
					sp.Scan = append(sp.Scan, fmt.Sprintf("assume %q in %s (%s:%d)", c.Text, cur.Key, shortPath(path), l.no))
				case "invariant":
					if curLoop == nil {
						return fail(fmt.Errorf("invariant outside loop"))
					}
					curLoop.Invariants = append(curLoop.Invariants, c)
				case "decreases":
					if curLoop == nil {
						return fail(fmt.Errorf("decreases outside loop"))
					}
					cc := c
					curLoop.Decreases = &cc
				}
			case "modifies":
				cur.HasMod = true
				if strings.TrimSpace(rest) != "nothing" {
					for _, part := range splitTop(rest, ',') {
						c, err := parseClause(part, l.no, path)
						if err != nil {
							return err
						}
						cur.Modifies = append(cur.Modifies, c)
					}
				}
			case "keeps":
				// keeps x.f, *p: assumption that the calls abstracted under `pragma unknowncalls havoc` leave these alone
				for _, part := range splitTop(rest, ',') {
					c, err := parseClause(part, l.no, path)
					if err != nil {
						return err
					}
					cur.Keeps = append(cur.Keeps, c)
				}
				sp.Scan = append(sp.Scan, fmt.Sprintf("assumed: abstracted calls in %s do not write %s (%s:%d)", cur.Key, rest, shortPath(path), l.no))
			case "atomic":
				for _, u := range strings.Split(rest, ",") {
					cur.Atomic = append(cur.Atomic, strings.TrimSpace(u))
				}
			case "guarded":
				// guarded <Type.field> by <expr>: the field may only be accessed while held(<expr>)
				i := strings.Index(rest, " by ")
				if i < 0 {
					return fail(fmt.Errorf("guarded: want 'guarded Type.field by <mutex expr>'"))
				}
				c, err := parseClause(rest[i+4:], l.no, path)
				if err != nil {
					return err
				}
				c.Label = strings.TrimSpace(rest[:i])
				cur.Guarded = append(cur.Guarded, c)
			case "rely":
				c, err := parseClause(rest, l.no, path)
				if err != nil {
					return err
				}
				cur.Rely = append(cur.Rely, c)
			case "shared":
				for _, u := range strings.Split(rest, ",") {
					cur.Shared = append(cur.Shared, strings.TrimSpace(u))
				}
			case "cbinvariant":
				c, err := parseClause(rest, l.no, path)
				if err != nil {
					return err
				}
				cur.CbInv = append(cur.CbInv, c)
			case "fields":
				cur.Shapes = append(cur.Shapes, strings.TrimSpace(rest))
			case "deadexit":
				cur.DeadExits = append(cur.DeadExits, strings.TrimSpace(rest))
				sp.Scan = append(sp.Scan, fmt.Sprintf("return declared unreachable under the contract (no reachability cover): %q in %s (%s:%d)", strings.TrimSpace(rest), cur.Key, shortPath(path), l.no))
			case "forbid":
				// forbid [label] call Name
				c := Clause{Text: rest}
				if strings.HasPrefix(rest, "[") {
					if i := strings.Index(rest, "]"); i > 0 {
						c.Label = strings.TrimSpace(rest[1:i])
						c.Text = strings.TrimSpace(rest[i+1:])
					}
				}
				cur.Forbid = append(cur.Forbid, c)
			case "uses":
				for _, u := range strings.Split(rest, ",") {
					cur.Uses = append(cur.Uses, strings.TrimSpace(u))
				}
			case "inline":
				cur.Inline = true
				sp.Scan = append(sp.Scan, fmt.Sprintf("inline %s (%s:%d)", cur.Key, shortPath(path), l.no))
			case "trusted":
				cur.Trusted = true
				sp.Scan = append(sp.Scan, fmt.Sprintf("trusted contract %s (%s:%d)", cur.Key, shortPath(path), l.no))
			case "pragma":
				k, v := firstWord(rest)
				if k == "fits" {
					// pragma fits <source text>: the overflow obligation of that expression is assumed
					cur.Fits = append(cur.Fits, v)
					sp.Scan = append(sp.Scan, fmt.Sprintf("assumed: %q does not overflow, in %s (%s:%d)", v, cur.Key, shortPath(path), l.no))
					continue
				}
				cur.Pragmas[k] = v
				switch k + " " + v {
				case "frame off", "nooverflow skip", "fdiv unchecked", "floats real", "unknowncalls havoc", "obligations contract":
					sp.Scan = append(sp.Scan, fmt.Sprintf("pragma %s %s in %s (%s:%d)", k, v, cur.Key, shortPath(path), l.no))
				}
				if k == "wraps" {
					sp.Scan = append(sp.Scan, fmt.Sprintf("wraps %s in %s (%s:%d)", v, cur.Key, shortPath(path), l.no))
				}
			case "ghost":
				// ghost name type [= expr]
				init := ""
				if i := strings.Index(rest, "="); i >= 0 {
					init = strings.TrimSpace(rest[i+1:])
					rest = rest[:i]
				}
				f := strings.Fields(rest)
				if len(f) != 2 {
					return fail(fmt.Errorf("ghost: want 'ghost name type [= init]'"))
				}
				g := GhostDecl{Name: f[0], Type: f[1]}
				if init != "" {
					e, err := ParseExpr(init)
					if err != nil {
						return fail(err)
					}
					g.Init = e
				}
				cur.Ghosts = append(cur.Ghosts, g)
			case "loop":
				n, err := strconv.Atoi(strings.TrimSpace(rest))
				if err != nil {
					return fail(err)
				}
				curLoop = &LoopContract{}
				cur.Loops[n] = curLoop
			case "at", "before":
				// at <anchor> [xN]: action; action
				i := strings.Index(rest, ":")
				if i < 0 {
					return fail(fmt.Errorf("at: missing ':'"))
				}
				head, body := strings.TrimSpace(rest[:i]), rest[i+1:]
				ac := &AtClause{Line: l.no, Before: w == "before"}
				hf := strings.Fields(head)
				if n := len(hf); n > 0 && hf[n-1] == "x*" {
					// any number of matches, also none: only for clauses that merely assume
					ac.Optional = true
					hf = hf[:n-1]
				}
				if n := len(hf); n > 0 && strings.HasPrefix(hf[n-1], "x") {
					if k, err := strconv.Atoi(hf[n-1][1:]); err == nil {
						ac.Count = k
						hf = hf[:n-1]
					}
				}
				ac.Anchor = strings.Join(hf, " ")
				for _, a := range splitTop(body, ';') {
					a = strings.TrimSpace(a)
					if a == "" {
						continue
					}
					kw, r := firstWord(a)
					switch kw {
					case "assert", "assume":
						c, err := parseClause(r, l.no, path)
						if err != nil {
							return err
						}
						ac.Actions = append(ac.Actions, Action{Kind: kw, C: c})
						if kw == "assume" {
							sp.Scan = append(sp.Scan, fmt.Sprintf("assume %q at %s in %s (%s:%d)", c.Text, ac.Anchor, cur.Key, shortPath(path), l.no))
						}
					case "havoc":
						c, err := parseClause(r, l.no, path)
						if err != nil {
							return err
						}
						ac.Actions = append(ac.Actions, Action{Kind: "havoc", C: c})
					case "apply":
						c, err := parseClause(r, l.no, path)
						if err != nil {
							return err
						}
						ac.Actions = append(ac.Actions, Action{Kind: "apply", C: c})
					case "ghost":
						j := strings.Index(r, "=")
						if j < 0 {
							return fail(fmt.Errorf("ghost action needs '='"))
						}
						c, err := parseClause(r[j+1:], l.no, path)
						if err != nil {
							return err
						}
						ac.Actions = append(ac.Actions, Action{Kind: "ghost", Target: strings.TrimSpace(r[:j]), C: c})
					default:
						return fail(fmt.Errorf("unknown action %q", kw))
					}
				}
				cur.Ats = append(cur.Ats, ac)
			default:
				return fail(fmt.Errorf("unknown keyword %q", w))
			}
		}
	}
	return nil
}

func splitTop(s string, sep byte) []string {
	var out []string
	depth := 0
	start := 0
	inStr := false
	for i := 0; i < len(s); i++ {
		c := s[i]
		if inStr {
			if c == '\\' {
				i++
			} else if c == '"' {
				inStr = false
			}
			continue
		}
		switch c {
		case '"':
			inStr = true
		case '(', '[', '{':
			depth++
		case ')', ']', '}':
			depth--
		default:
			if c == sep && depth == 0 {
				out = append(out, s[start:i])
				start = i + 1
			}
		}
	}
	out = append(out, s[start:])
	return out
}

func shortPath(p string) string {
	p = strings.TrimPrefix(p, "/repo/")
	p = strings.TrimPrefix(p, "/verif/")
	return p
}
