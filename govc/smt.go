package main

// SMT terms, the per-function verification context (declarations, definitions,
// assumptions, obligations) and the solver portfolio.

import (
	"bytes"
	"context"
	"fmt"
	"os"
	"os/exec"
	"path/filepath"
	"regexp"
	"sort"
	"strings"
	"sync"
	"time"
)

type Sort string

const (
	SInt  Sort = "Int"
	SBool Sort = "Bool"
	SF64  Sort = "F64"
	SStr  Sort = "Str"
	SReal Sort = "Real"
)

func ArrSort(idx, el Sort) Sort { return Sort("(Array " + string(idx) + " " + string(el) + ")") }

// Term is an SMT-LIB term with its sort.
type Term struct {
	S    string
	Sort Sort
}

func (t Term) String() string { return t.S }

func I(n int64) Term {
	if n < 0 {
		return Term{fmt.Sprintf("(- %d)", -n), SInt}
	}
	return Term{fmt.Sprintf("%d", n), SInt}
}
func IStr(dec string) Term {
	if strings.HasPrefix(dec, "-") {
		return Term{"(- " + dec[1:] + ")", SInt}
	}
	return Term{dec, SInt}
}
func B(b bool) Term {
	if b {
		return Term{"true", SBool}
	}
	return Term{"false", SBool}
}

var TTrue = B(true)
var TFalse = B(false)

func app(sort Sort, op string, args ...Term) Term {
	var sb strings.Builder
	sb.WriteByte('(')
	sb.WriteString(op)
	for _, a := range args {
		sb.WriteByte(' ')
		sb.WriteString(a.S)
	}
	sb.WriteByte(')')
	return Term{sb.String(), sort}
}

func And(ts ...Term) Term {
	var xs []Term
	for _, t := range ts {
		if t.S == "true" {
			continue
		}
		if t.S == "false" {
			return TFalse
		}
		xs = append(xs, t)
	}
	if len(xs) == 0 {
		return TTrue
	}
	if len(xs) == 1 {
		return xs[0]
	}
	return app(SBool, "and", xs...)
}
func Or(ts ...Term) Term {
	var xs []Term
	for _, t := range ts {
		if t.S == "false" {
			continue
		}
		if t.S == "true" {
			return TTrue
		}
		xs = append(xs, t)
	}
	if len(xs) == 0 {
		return TFalse
	}
	if len(xs) == 1 {
		return xs[0]
	}
	return app(SBool, "or", xs...)
}
func Not(t Term) Term {
	if t.S == "true" {
		return TFalse
	}
	if t.S == "false" {
		return TTrue
	}
	if strings.HasPrefix(t.S, "(not ") {
		return Term{t.S[5 : len(t.S)-1], SBool}
	}
	return app(SBool, "not", t)
}
func Implies(a, b Term) Term {
	if a.S == "true" {
		return b
	}
	if a.S == "false" || b.S == "true" {
		return TTrue
	}
	return app(SBool, "=>", a, b)
}
func Eq(a, b Term) Term {
	if a.S == b.S {
		return TTrue
	}
	return app(SBool, "=", a, b)
}
func Ite(c, a, b Term) Term {
	if c.S == "true" {
		return a
	}
	if c.S == "false" {
		return b
	}
	if a.S == b.S {
		return a
	}
	return app(a.Sort, "ite", c, a, b)
}
func litInt(t Term) (int64, bool) {
	if t.Sort != SInt || len(t.S) == 0 || len(t.S) > 15 {
		return 0, false
	}
	var n int64
	for i := 0; i < len(t.S); i++ {
		c := t.S[i]
		if c < '0' || c > '9' {
			return 0, false
		}
		n = n*10 + int64(c-'0')
	}
	return n, true
}
func Add(a, b Term) Term {
	x, ok1 := litInt(a)
	y, ok2 := litInt(b)
	if ok1 && ok2 {
		return I(x + y)
	}
	if ok1 && x == 0 {
		return b
	}
	if ok2 && y == 0 {
		return a
	}
	return app(SInt, "+", a, b)
}
func Sub(a, b Term) Term {
	x, ok1 := litInt(a)
	y, ok2 := litInt(b)
	if ok1 && ok2 && x >= y {
		return I(x - y)
	}
	if ok2 && y == 0 {
		return a
	}
	return app(SInt, "-", a, b)
}
func Mul(a, b Term) Term { return app(SInt, "*", a, b) }
func Le(a, b Term) Term  { return app(SBool, "<=", a, b) }
func Lt(a, b Term) Term  { return app(SBool, "<", a, b) }
func Ge(a, b Term) Term  { return app(SBool, ">=", a, b) }
func Gt(a, b Term) Term  { return app(SBool, ">", a, b) }
func Sel(arr, idx Term) Term {
	// element sort: strip "(Array idx " prefix
	return app(elemSort(arr.Sort), "select", arr, idx)
}
func Sto(arr, idx, v Term) Term { return app(arr.Sort, "store", arr, idx, v) }

// Idx is the absolute index of element i of a slice with offset off. It is kept as an
// uninterpreted application (axiom: idx(o,k) = o+k) so that quantifier patterns over
// element reads contain no arithmetic.
func Idx(off, i Term) Term { return app(SInt, "idx", off, i) }

func elemSort(s Sort) Sort {
	str := string(s)
	if !strings.HasPrefix(str, "(Array ") {
		panic("elemSort of non-array " + str)
	}
	// parse "(Array A B)" where A, B may be nested
	rest := str[len("(Array ") : len(str)-1]
	depth := 0
	for i := 0; i < len(rest); i++ {
		switch rest[i] {
		case '(':
			depth++
		case ')':
			depth--
		case ' ':
			if depth == 0 {
				return Sort(rest[i+1:])
			}
		}
	}
	panic("bad array sort " + str)
}
func idxSort(s Sort) Sort {
	str := string(s)
	rest := str[len("(Array ") : len(str)-1]
	depth := 0
	for i := 0; i < len(rest); i++ {
		switch rest[i] {
		case '(':
			depth++
		case ')':
			depth--
		case ' ':
			if depth == 0 {
				return Sort(rest[:i])
			}
		}
	}
	panic("bad array sort " + str)
}

// ---------------------------------------------------------------------------

type declKind int

const (
	dConst declKind = iota // declare-const / declare-fun
	dDef                   // define-fun
)

type decl struct {
	name string
	kind declKind
	text string   // full SMT-LIB command
	deps []string // symbols referenced (for defs)
	seq  int
}

type assumption struct {
	text string // the asserted formula
	seq  int
	why  string
}

// Obligation is one proof goal.
type Obligation struct {
	Name     string
	Kind     string
	Func     string
	Goal     Term // must hold under all assumptions with seq < Seq
	Seq      int
	Pos      string
	Cover    bool     // expected SAT (vacuity guard): Goal is the formula that must be satisfiable
	ModelOf  []string // symbols whose model values are interesting for replay
	ModelLbl []string
	// results
	Status  string // unsat | sat | unknown | timeout | error
	Retried bool
	Backend string
	TimeS   float64
	Model   map[string]string
	Raw     string
	SMTSize int
}

// VC is the per-function verification context.
type VC struct {
	fn      string
	decls   []*decl
	byName  map[string]*decl
	assumes []assumption
	obls    []*Obligation
	seq     int
	fresh   int
	oblName map[string]int
	inQuant int // >0 while building the body of a quantifier: no global definitions/assumptions
	// kinds of obligations that are assumed instead of proved (`pragma obligations contract`), with counts
	assumeKinds map[string]bool
	assumedN    map[string]int
}

func NewVC(fn string) *VC {
	return &VC{fn: fn, byName: map[string]*decl{}, oblName: map[string]int{}}
}

var symRe = regexp.MustCompile(`[A-Za-z_$!.][A-Za-z0-9_$!.#@']*|\|[^|]*\|`)

func symbolsOf(s string) []string { return symRe.FindAllString(s, -1) }

func (vc *VC) next() int { vc.seq++; return vc.seq }

func sanitize(name string) string {
	var sb strings.Builder
	for _, r := range name {
		switch {
		case r >= 'a' && r <= 'z', r >= 'A' && r <= 'Z', r >= '0' && r <= '9', r == '_', r == '.', r == '$', r == '!':
			sb.WriteRune(r)
		default:
			sb.WriteByte('_')
		}
	}
	return sb.String()
}

// Fresh declares a new uninterpreted constant.
func (vc *VC) Fresh(hint string, sort Sort) Term {
	vc.fresh++
	name := fmt.Sprintf("%s!%d", sanitize(hint), vc.fresh)
	vc.decls = append(vc.decls, &decl{name: name, kind: dConst, text: fmt.Sprintf("(declare-fun %s () %s)", name, sort), seq: vc.next()})
	vc.byName[name] = vc.decls[len(vc.decls)-1]
	return Term{name, sort}
}

// DeclareFun declares an uninterpreted function once.
func (vc *VC) DeclareFun(name string, args []Sort, res Sort) {
	if _, ok := vc.byName[name]; ok {
		return
	}
	var as []string
	for _, a := range args {
		as = append(as, string(a))
	}
	d := &decl{name: name, kind: dConst, text: fmt.Sprintf("(declare-fun %s (%s) %s)", name, strings.Join(as, " "), res), seq: vc.next()}
	vc.decls = append(vc.decls, d)
	vc.byName[name] = d
}

// DefineFun defines an interpreted function once.
func (vc *VC) DefineFun(name string, params string, res Sort, body string) {
	if _, ok := vc.byName[name]; ok {
		return
	}
	d := &decl{name: name, kind: dDef, text: fmt.Sprintf("(define-fun %s (%s) %s %s)", name, params, res, body), deps: symbolsOf(body), seq: vc.next()}
	vc.decls = append(vc.decls, d)
	vc.byName[name] = d
}

// Define names a compound term (keeps the VC linear in size).
func (vc *VC) Define(hint string, t Term) Term {
	if len(t.S) < 24 || vc.inQuant > 0 {
		return t
	}
	vc.fresh++
	name := fmt.Sprintf("%s!%d", sanitize(hint), vc.fresh)
	d := &decl{name: name, kind: dDef, text: fmt.Sprintf("(define-fun %s () %s %s)", name, t.Sort, t.S), deps: symbolsOf(t.S), seq: vc.next()}
	vc.decls = append(vc.decls, d)
	vc.byName[name] = d
	return Term{name, t.Sort}
}

// Assume adds a fact usable by every later obligation.
func (vc *VC) Assume(pc Term, fact Term, why string) {
	if vc.inQuant > 0 {
		return
	}
	f := Implies(pc, fact)
	if f.S == "true" {
		return
	}
	vc.assumes = append(vc.assumes, assumption{text: f.S, seq: vc.next(), why: why})
}

// AssumeRaw adds a closed axiom.
func (vc *VC) AssumeRaw(text, why string) {
	vc.assumes = append(vc.assumes, assumption{text: text, seq: vc.next(), why: why})
}

func (vc *VC) uniqueName(name string) string {
	n := vc.oblName[name]
	vc.oblName[name] = n + 1
	if n == 0 {
		return name
	}
	return fmt.Sprintf("%s/%d", name, n+1)
}

// Oblige records a proof obligation: under pc (and all earlier assumptions) goal holds.
func (vc *VC) Oblige(kind, anchor string, pc, goal Term, pos string) *Obligation {
	if vc.assumeKinds[kind] {
		if vc.assumedN == nil {
			vc.assumedN = map[string]int{}
		}
		vc.assumedN[kind]++
		vc.Assume(pc, goal, "assumed "+kind+" obligation")
		return &Obligation{Name: "assumed", Kind: kind, Func: vc.fn, Goal: TTrue}
	}
	g := Implies(pc, goal)
	name := vc.uniqueName(fmt.Sprintf("%s#%s:%s", vc.fn, kind, anchor))
	o := &Obligation{Name: name, Kind: kind, Func: vc.fn, Goal: g, Seq: vc.next(), Pos: pos}
	vc.obls = append(vc.obls, o)
	return o
}

// Cover records a vacuity guard: pc && what must be satisfiable.
func (vc *VC) Cover(anchor string, pc, what Term, pos string) *Obligation {
	name := vc.uniqueName(fmt.Sprintf("%s#cover:%s", vc.fn, anchor))
	o := &Obligation{Name: name, Kind: "cover", Func: vc.fn, Goal: And(pc, what), Seq: vc.next(), Pos: pos, Cover: true}
	vc.obls = append(vc.obls, o)
	return o
}

const prelude = `(declare-sort F64 0)
(declare-sort Str 0)
(define-fun tdiv ((a Int) (b Int)) Int (ite (>= a 0) (ite (> b 0) (div a b) (- (div a (- b)))) (ite (> b 0) (- (div (- a) b)) (div (- a) (- b)))))
(define-fun tmod ((a Int) (b Int)) Int (- a (* b (tdiv a b))))
(define-fun imax ((a Int) (b Int)) Int (ite (>= a b) a b))
(define-fun imin ((a Int) (b Int)) Int (ite (<= a b) a b))
`

const idxPrelude = `(declare-fun idx (Int Int) Int)
(assert (forall ((o Int) (k Int)) (! (= (idx o k) (+ o k)) :pattern ((idx o k)))))
`

// Query renders the SMT-LIB script for one obligation (sliced to what it depends on).
func (vc *VC) Query(o *Obligation, wantModel bool) string { return vc.QueryOpt(o, wantModel, false) }

// QueryOpt: groundOnly drops the quantified assumptions (used as a fallback for vacuity covers only).
func (vc *VC) QueryOpt(o *Obligation, wantModel bool, groundOnly bool) string {
	need := map[string]bool{}
	var work []string
	addSyms := func(s string) {
		for _, sym := range symbolsOf(s) {
			if d, ok := vc.byName[sym]; ok && !need[sym] {
				need[sym] = true
				if d.kind == dDef {
					work = append(work, sym)
				}
			}
		}
	}
	addSyms(o.Goal.S)
	if wantModel {
		for _, m := range o.ModelOf {
			if strings.HasPrefix(m, "mv!") {
				addSyms(m) // aliases of entry-heap contents for the replay
			}
		}
	}
	var as []assumption
	var axioms []assumption
	seen := map[string]bool{}
	for _, a := range vc.assumes {
		if a.seq < o.Seq && !seen[a.text] {
			if groundOnly && (strings.Contains(a.text, "(forall ") || strings.Contains(a.text, "(exists ")) {
				continue
			}
			seen[a.text] = true
			if a.why == "axiom" {
				axioms = append(axioms, a) // global axioms over spec functions: only when relevant
				continue
			}
			as = append(as, a)
			addSyms(a.text)
		}
	}
	// an axiom is relevant when it mentions a spec function the query already uses (fixpoint)
	for changed := true; changed; {
		changed = false
		var rest []assumption
		for _, a := range axioms {
			rel := false
			for _, sym := range symbolsOf(a.text) {
				if strings.HasPrefix(sym, "spec.") && need[sym] {
					rel = true
					break
				}
			}
			if rel {
				as = append(as, a)
				addSyms(a.text)
				changed = true
			} else {
				rest = append(rest, a)
			}
		}
		axioms = rest
	}
	for len(work) > 0 {
		s := work[len(work)-1]
		work = work[:len(work)-1]
		d := vc.byName[s]
		for _, dep := range d.deps {
			if dd, ok := vc.byName[dep]; ok && !need[dep] {
				need[dep] = true
				if dd.kind == dDef {
					work = append(work, dep)
				}
			}
		}
	}
	var sb strings.Builder
	sb.WriteString("; " + o.Name + "\n")
	sb.WriteString(prelude)
	usesIdx := strings.Contains(o.Goal.S, "(idx ")
	for _, a := range as {
		if usesIdx {
			break
		}
		usesIdx = strings.Contains(a.text, "(idx ")
	}
	for _, d := range vc.decls {
		if usesIdx {
			break
		}
		if need[d.name] && strings.Contains(d.text, "(idx ") {
			usesIdx = true
		}
	}
	if usesIdx {
		sb.WriteString(idxPrelude)
	}
	for _, d := range vc.decls {
		if need[d.name] {
			sb.WriteString(d.text)
			sb.WriteByte('\n')
		}
	}
	for _, a := range as {
		sb.WriteString("(assert ")
		sb.WriteString(a.text)
		sb.WriteString(")\n")
	}
	if o.Cover {
		sb.WriteString("(assert " + o.Goal.S + ")\n")
	} else {
		sb.WriteString("(assert (not " + o.Goal.S + "))\n")
	}
	sb.WriteString("(check-sat)\n")
	if wantModel && len(o.ModelOf) > 0 {
		var ms []string
		for _, m := range o.ModelOf {
			if need[m] {
				ms = append(ms, m)
			}
		}
		// string literals in the query: their model values let a replay map abstract strings back
		for _, k := range sortedKeys(need) {
			if strings.HasPrefix(k, "str!") && need[k] {
				ms = append(ms, k)
			}
		}
		if len(ms) > 0 {
			sb.WriteString("(get-value (" + strings.Join(ms, " ") + "))\n")
		}
	}
	return sb.String()
}

// ---------------------------------------------------------------------------
// Solver portfolio

type solverSpec struct {
	name string
	argv func(file string, timeoutS int) []string
	pre  string
}

var solvers = []solverSpec{
	{"z3-new", func(f string, t int) []string { return []string{"z3-new", fmt.Sprintf("-T:%d", t), f} }, ""},
	{"z3", func(f string, t int) []string { return []string{"z3", fmt.Sprintf("-T:%d", t), f} }, ""},
	{"cvc5", func(f string, t int) []string {
		return []string{"cvc5", "--produce-models", fmt.Sprintf("--tlimit=%d", t*1000), f}
	}, "(set-logic ALL)\n"},
}

type solveResult struct {
	status  string
	backend string
	out     string
	dur     float64
}

func firstLine(s string) string {
	s = strings.TrimSpace(s)
	if i := strings.IndexByte(s, '\n'); i >= 0 {
		return strings.TrimSpace(s[:i])
	}
	return s
}

func runOne(ctx context.Context, sp solverSpec, dir, base, script string, timeoutS int) solveResult {
	file := filepath.Join(dir, base+"."+sp.name+".smt2")
	if err := os.WriteFile(file, []byte(sp.pre+script), 0o644); err != nil {
		return solveResult{status: "error", backend: sp.name, out: err.Error()}
	}
	argv := sp.argv(file, timeoutS)
	start := time.Now()
	cmd := exec.CommandContext(ctx, argv[0], argv[1:]...)
	var out bytes.Buffer
	cmd.Stdout = &out
	cmd.Stderr = &out
	_ = cmd.Run()
	dur := time.Since(start).Seconds()
	fl := firstLine(out.String())
	st := "unknown"
	switch fl {
	case "unsat", "sat":
		st = fl
	case "timeout":
		st = "timeout"
	default:
		if ctx.Err() != nil {
			st = "cancelled"
		} else if strings.Contains(out.String(), "timeout") || strings.Contains(out.String(), "interrupted") {
			st = "timeout"
		} else if strings.HasPrefix(fl, "(error") {
			st = "error"
		}
	}
	return solveResult{status: st, backend: sp.name, out: out.String(), dur: dur}
}

// CrossCheck: (thorough tier) every solver runs to its own answer and the answers must agree: a goal counts
// as discharged only if at least one solver says unsat and none says sat.
var CrossCheck bool

// solveAll runs every solver to completion and combines the answers.
func solveAll(dir, base, script string, timeoutS int) solveResult {
	ctx, cancel := context.WithTimeout(context.Background(), time.Duration(timeoutS+2)*time.Second)
	defer cancel()
	ch := make(chan solveResult, len(solvers))
	for _, sp := range solvers {
		sp := sp
		go func() { ch <- runOne(ctx, sp, dir, base, script, timeoutS) }()
	}
	var all []string
	var sat, unsat, other *solveResult
	var agree []string
	maxDur := 0.0
	for range solvers {
		r := <-ch
		r2 := r
		all = append(all, fmt.Sprintf("[%s %s %.2fs]", r.backend, r.status, r.dur))
		switch r.status {
		case "sat":
			sat = &r2
		case "unsat":
			if unsat == nil {
				unsat = &r2
			}
			agree = append(agree, r.backend)
			if r.dur > maxDur {
				maxDur = r.dur
			}
		default:
			other = &r2
		}
	}
	sort.Strings(agree)
	switch {
	case sat != nil && unsat != nil:
		return solveResult{status: "disagreement", backend: strings.Join(all, " "), out: "solvers disagree: " + strings.Join(all, " ") + "\n" + sat.out, dur: sat.dur}
	case sat != nil:
		return *sat
	case unsat != nil:
		return solveResult{status: "unsat", backend: strings.Join(agree, "+"), out: unsat.out, dur: maxDur}
	}
	other.out = strings.Join(all, "\n") + "\n" + other.out
	if other.status == "cancelled" {
		other.status = "timeout"
	}
	return *other
}

// Solve races the portfolio on one script; first definite answer wins.
func Solve(dir, base, script string, timeoutS int) solveResult {
	if CrossCheck {
		return solveAll(dir, base, script, timeoutS)
	}
	ctx, cancel := context.WithTimeout(context.Background(), time.Duration(timeoutS+2)*time.Second)
	defer cancel()
	ch := make(chan solveResult, len(solvers))
	for _, sp := range solvers {
		sp := sp
		go func() { ch <- runOne(ctx, sp, dir, base, script, timeoutS) }()
	}
	var last solveResult
	var all []string
	for range solvers {
		r := <-ch
		all = append(all, fmt.Sprintf("[%s %s %.2fs] %s", r.backend, r.status, r.dur, firstLine(r.out)))
		if r.status == "unsat" || r.status == "sat" {
			cancel()
			return r
		}
		if last.status == "" || last.status == "cancelled" || last.status == "error" {
			last = r
		}
	}
	last.out = strings.Join(all, "\n") + "\n" + last.out
	if last.status == "cancelled" {
		last.status = "timeout"
	}
	return last
}

var valRe = regexp.MustCompile(`\(\s*([^\s()]+)\s+(\(- ?[0-9.]+\)|[^\s()]+|\([^()]*\))\s*\)`)

func parseValues(out string) map[string]string {
	m := map[string]string{}
	i := strings.IndexByte(out, '\n')
	if i < 0 {
		return m
	}
	for _, mm := range valRe.FindAllStringSubmatch(out[i:], -1) {
		v := mm[2]
		v = strings.TrimSpace(v)
		if strings.HasPrefix(v, "(-") {
			v = "-" + strings.TrimSpace(strings.TrimSuffix(strings.TrimPrefix(v, "(-"), ")"))
		}
		m[mm[1]] = v
	}
	return m
}

// Discharge runs all obligations of the given VCs in parallel.
func Discharge(vcs []*VC, outDir string, timeoutS int, par int) {
	type job struct {
		vc *VC
		o  *Obligation
	}
	var jobs []job
	for _, vc := range vcs {
		for _, o := range vc.obls {
			jobs = append(jobs, job{vc, o})
		}
	}
	_ = os.MkdirAll(outDir, 0o755)
	sem := make(chan struct{}, par)
	var wg sync.WaitGroup
	for i, j := range jobs {
		wg.Add(1)
		sem <- struct{}{}
		go func(i int, j job) {
			defer wg.Done()
			defer func() { <-sem }()
			if j.o.Kind == "forbid" || j.o.Kind == "anchors" {
				// syntactic obligation: decided when it was generated
				j.o.Status, j.o.Backend = "unsat", "syntactic"
				if !strings.HasSuffix(j.o.Goal.S, "true") && !strings.HasSuffix(j.o.Goal.S, "true)") {
					j.o.Status = "sat"
				}
				return
			}
			script := j.vc.Query(j.o, true)
			j.o.SMTSize = len(script)
			base := fmt.Sprintf("q%04d_%s", i, sanitize(j.o.Name))
			if len(base) > 120 {
				base = base[:120]
			}
			to := timeoutS
			if j.o.Cover && to > 5 {
				to = 5
			}
			r := Solve(outDir, base, script, to)
			if j.o.Cover && r.status != "sat" && r.status != "unsat" {
				// quantified assumptions keep the solver from building a model: retry on the ground part
				r2 := Solve(outDir, base+"_ground", j.vc.QueryOpt(j.o, false, true), 5)
				if r2.status == "sat" || r2.status == "unsat" {
					r = r2
					r.backend += "(ground-only)"
				}
			}
			j.o.Status, j.o.Backend, j.o.TimeS, j.o.Raw = r.status, r.backend, r.dur, r.out
			if r.status == "sat" {
				j.o.Model = parseValues(r.out)
			}
		}(i, j)
	}
	wg.Wait()
	// Undecided obligations are retried with the machine quiet (4 at a time) and three times the budget:
	// a definite answer is never revisited, so this can only turn a load-induced timeout into a verdict.
	sem2 := make(chan struct{}, 4)
	for i, j := range jobs {
		if j.o.Cover || j.o.Status == "sat" || j.o.Status == "unsat" {
			continue
		}
		wg.Add(1)
		sem2 <- struct{}{}
		go func(i int, j job) {
			defer wg.Done()
			defer func() { <-sem2 }()
			base := fmt.Sprintf("q%04d_%s", i, sanitize(j.o.Name))
			if len(base) > 110 {
				base = base[:110]
			}
			r := Solve(outDir, base+"_retry", j.vc.Query(j.o, true), 3*timeoutS)
			j.o.Retried = true
			if r.status == "sat" || r.status == "unsat" {
				j.o.Status, j.o.Backend, j.o.TimeS, j.o.Raw = r.status, r.backend, r.dur, r.out
				if r.status == "sat" {
					j.o.Model = parseValues(r.out)
				}
			}
		}(i, j)
	}
	wg.Wait()
}

func sortedKeys[V any](m map[string]V) []string {
	var ks []string
	for k := range m {
		ks = append(ks, k)
	}
	sort.Strings(ks)
	return ks
}
