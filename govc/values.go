package main

// Symbolic values and the mapping from Go types to SMT leaves.

import (
	"fmt"
	"go/types"
	"math/big"
	"regexp"
	"strings"

	"golang.org/x/tools/go/ssa"
)

type Value interface{}

// Sc is a scalar: Int (integers, refs, time instants, opaque state), Bool, F64, Str.
type Sc struct{ T Term }

// StructV is a struct value, field by field.
type StructV struct {
	F   []Value
	Typ *types.Struct
}

// SliceV is a slice header; elements live in the heap variable elem<T>.
type SliceV struct{ Ptr, Off, Len, Cap Term }

type ptrKind int

const (
	pLocal  ptrKind = iota // local cell (non-escaping Alloc)
	pObj                   // heap object (ref) of type Root
	pElem                  // element of a backing array
	pGlobal                // package-level variable
	pOpaque                // field of an opaque (library) struct: reads/writes go through the abstract state of Base
)

// PtrV is a pointer with statically known shape.
type PtrV struct {
	Kind ptrKind
	Cell cellKey     // pLocal
	Ref  Term        // pObj: object ref; pElem: backing array ref
	Idx  Term        // pElem: absolute index
	Root types.Type  // type of the root object / element / cell
	Path []int       // field path from the root
	Glob *ssa.Global // pGlobal
	Base *PtrV       // pOpaque: the opaque struct
	Fld  string      // pOpaque: field name
}

type TupleV []Value

// FuncV is a function value: static function, closure, or opaque (Ref only).
type FuncV struct {
	Fn   *ssa.Function
	Free []Value
	Ref  Term
	// bound method value
	Recv Value
}

type cellKey struct {
	a     *ssa.Alloc
	frame int
}

// ---------------------------------------------------------------------------

var byteRe = regexp.MustCompile(`\bbyte\b`)
var runeRe = regexp.MustCompile(`\brune\b`)

const modPrefix = "github.com/tsenart/vegeta/v12"

func isTimeTime(t types.Type) bool {
	n, ok := t.(*types.Named)
	return ok && n.Obj().Pkg() != nil && n.Obj().Pkg().Path() == "time" && n.Obj().Name() == "Time"
}

// transparentStruct says whether a struct type is modelled field by field.
func transparentStruct(t types.Type) bool {
	switch n := t.(type) {
	case *types.Named:
		if isTimeTime(t) {
			return false
		}
		if _, ok := n.Underlying().(*types.Struct); !ok {
			return false
		}
		if n.Obj().Pkg() == nil {
			return false
		}
		p := n.Obj().Pkg().Path()
		if p == "net/http" && (n.Obj().Name() == "Request" || n.Obj().Name() == "Response") {
			return true // modelled field by field (the code reads and writes their fields directly)
		}
		return strings.HasPrefix(p, modPrefix)
	case *types.Struct:
		return true // anonymous struct literal types in the module
	}
	return false
}

func typeName(t types.Type) string {
	s := types.TypeString(t, func(p *types.Package) string { return p.Name() })
	s = strings.ReplaceAll(s, " ", "")
	s = byteRe.ReplaceAllString(s, "uint8")
	s = runeRe.ReplaceAllString(s, "int32")
	if len(s) > 60 {
		s = s[:60]
	}
	return s
}

type leaf struct {
	path string // e.g. ".Latencies.Total" or ".Buckets#len" or ""
	sort Sort
	typ  types.Type // Go type of the leaf (nil for slice header parts)
	part string     // "", "ptr", "off", "len", "cap"
}

func sortOfBasic(b *types.Basic) Sort {
	switch {
	case b.Info()&types.IsBoolean != 0:
		return SBool
	case b.Info()&types.IsInteger != 0:
		return SInt
	case b.Info()&types.IsFloat != 0:
		return SF64
	case b.Info()&types.IsString != 0:
		return SStr
	case b.Kind() == types.UnsafePointer:
		return SInt
	case b.Kind() == types.UntypedNil:
		return SInt
	}
	return SInt
}

// leavesOf lists the SMT leaves of a Go type in a fixed order.
func leavesOf(t types.Type) []leaf {
	var out []leaf
	var walk func(t types.Type, prefix string)
	walk = func(t types.Type, prefix string) {
		if isTimeTime(t) {
			out = append(out, leaf{prefix, SInt, t, ""})
			return
		}
		switch u := t.Underlying().(type) {
		case *types.Basic:
			out = append(out, leaf{prefix, sortOfBasic(u), t, ""})
		case *types.Struct:
			if !transparentStruct(t) {
				out = append(out, leaf{prefix, SInt, t, ""})
				return
			}
			for i := 0; i < u.NumFields(); i++ {
				walk(u.Field(i).Type(), prefix+"."+u.Field(i).Name())
			}
		case *types.Slice:
			out = append(out, leaf{prefix + "#ptr", SInt, nil, "ptr"}, leaf{prefix + "#off", SInt, nil, "off"},
				leaf{prefix + "#len", SInt, nil, "len"}, leaf{prefix + "#cap", SInt, nil, "cap"})
		default:
			out = append(out, leaf{prefix, SInt, t, ""})
		}
	}
	walk(t, "")
	return out
}

func (ex *Exec) flatten(v Value) []Term {
	switch x := v.(type) {
	case Sc:
		return []Term{x.T}
	case SliceV:
		return []Term{x.Ptr, x.Off, x.Len, x.Cap}
	case StructV:
		var out []Term
		for _, f := range x.F {
			out = append(out, ex.flatten(f)...)
		}
		return out
	case PtrV:
		return []Term{ex.ptrRef(x)}
	case FuncV:
		return []Term{ex.funcRef(x)}
	case nil:
		panic(unsupported("flatten nil value"))
	}
	panic(unsupported(fmt.Sprintf("flatten %T", v)))
}

// unflatten rebuilds a Value of type t from leaves (consumes from ts).
func (ex *Exec) unflatten(t types.Type, ts *[]Term) Value {
	take := func() Term { x := (*ts)[0]; *ts = (*ts)[1:]; return x }
	if isTimeTime(t) {
		return Sc{take()}
	}
	switch u := t.Underlying().(type) {
	case *types.Struct:
		if !transparentStruct(t) {
			return Sc{take()}
		}
		sv := StructV{Typ: u}
		for i := 0; i < u.NumFields(); i++ {
			sv.F = append(sv.F, ex.unflatten(u.Field(i).Type(), ts))
		}
		return sv
	case *types.Slice:
		return SliceV{take(), take(), take(), take()}
	case *types.Pointer:
		return PtrV{Kind: pObj, Ref: take(), Root: u.Elem()}
	case *types.Signature:
		return FuncV{Ref: take()}
	}
	return Sc{take()}
}

type unsupported string

func (u unsupported) Error() string { return string(u) }

// ptrRef turns a pointer into a scalar ref (only whole objects have one).
func (ex *Exec) ptrRef(p PtrV) Term {
	if p.Kind == pObj && len(p.Path) == 0 {
		return p.Ref
	}
	if p.Kind == pLocal && len(p.Path) == 0 {
		// address of a local cell escapes into a scalar: give it a stable fake ref
		if r, ok := ex.cellRefs[p.Cell]; ok {
			return r
		}
		r := ex.vc.Fresh("cellref", SInt)
		ex.cellRefs[p.Cell] = r
		return r
	}
	if p.Kind == pGlobal && len(p.Path) == 0 {
		return ex.globalRef(p.Glob)
	}
	if p.Kind == pObj || p.Kind == pElem {
		// interior pointer: uninterpreted injective-ish encoding
		name := "interior." + typeName(p.Root) + pathString(p.Root, p.Path)
		if p.Kind == pElem {
			ex.vc.DeclareFun(sanitize(name), []Sort{SInt, SInt}, SInt)
			return app(SInt, sanitize(name), p.Ref, p.Idx)
		}
		ex.vc.DeclareFun(sanitize(name), []Sort{SInt}, SInt)
		return app(SInt, sanitize(name), p.Ref)
	}
	panic(unsupported("pointer has no scalar form"))
}

func (ex *Exec) funcRef(f FuncV) Term {
	if f.Ref.S != "" {
		return f.Ref
	}
	if f.Fn != nil && len(f.Free) == 0 && f.Recv == nil {
		name := "fn." + sanitize(f.Fn.String())
		if _, ok := ex.vc.byName[name]; !ok {
			ex.vc.DeclareFun(name, nil, SInt)
			ex.vc.AssumeRaw(fmt.Sprintf("(> %s 0)", name), "a declared function is not nil")
		}
		return Term{name, SInt}
	}
	// closures: a fresh ref per creation
	return ex.vc.Fresh("closure", SInt)
}

func (ex *Exec) globalRef(g *ssa.Global) Term {
	name := "glob." + sanitize(g.Pkg.Pkg.Name()+"."+g.Name())
	ex.vc.DeclareFun(name, nil, SInt)
	return Term{name, SInt}
}

func pathString(root types.Type, path []int) string {
	s := ""
	t := root
	for _, i := range path {
		st, ok := t.Underlying().(*types.Struct)
		if !ok {
			return s + fmt.Sprintf(".#%d", i)
		}
		s += "." + st.Field(i).Name()
		t = st.Field(i).Type()
	}
	return s
}

func typeAtPath(root types.Type, path []int) types.Type {
	t := root
	for _, i := range path {
		st := t.Underlying().(*types.Struct)
		t = st.Field(i).Type()
	}
	return t
}

// ---------------------------------------------------------------------------
// integer ranges

func intRange(t types.Type) (lo, hi *big.Int, ok bool) {
	if isTimeTime(t) {
		return nil, nil, false
	}
	b, isB := t.Underlying().(*types.Basic)
	if !isB || b.Info()&types.IsInteger == 0 {
		return nil, nil, false
	}
	bits := 64
	switch b.Kind() {
	case types.Int8, types.Uint8:
		bits = 8
	case types.Int16, types.Uint16:
		bits = 16
	case types.Int32, types.Uint32:
		bits = 32
	}
	one := big.NewInt(1)
	if b.Info()&types.IsUnsigned != 0 {
		return big.NewInt(0), new(big.Int).Sub(new(big.Int).Lsh(one, uint(bits)), one), true
	}
	h := new(big.Int).Sub(new(big.Int).Lsh(one, uint(bits-1)), one)
	l := new(big.Int).Neg(new(big.Int).Lsh(one, uint(bits-1)))
	return l, h, true
}

func bigTerm(b *big.Int) Term { return IStr(b.String()) }

func inRange(t Term, typ types.Type) Term {
	lo, hi, ok := intRange(typ)
	if !ok {
		return TTrue
	}
	return And(Le(bigTerm(lo), t), Le(t, bigTerm(hi)))
}

func isUnsigned(t types.Type) bool {
	b, ok := t.Underlying().(*types.Basic)
	return ok && b.Info()&types.IsUnsigned != 0
}
func isInteger(t types.Type) bool {
	if isTimeTime(t) {
		return false
	}
	b, ok := t.Underlying().(*types.Basic)
	return ok && b.Info()&types.IsInteger != 0
}
func isFloat(t types.Type) bool {
	b, ok := t.Underlying().(*types.Basic)
	return ok && b.Info()&types.IsFloat != 0
}
func isString(t types.Type) bool {
	b, ok := t.Underlying().(*types.Basic)
	return ok && b.Info()&types.IsString != 0
}
func isBool(t types.Type) bool {
	b, ok := t.Underlying().(*types.Basic)
	return ok && b.Info()&types.IsBoolean != 0
}

// zero time.Time as ns relative to the Unix epoch (0001-01-01T00:00:00Z)
const zeroTimeNs = "-62135596800000000000"

func (ex *Exec) zeroValue(t types.Type) Value {
	if isTimeTime(t) {
		return Sc{IStr(zeroTimeNs)}
	}
	switch u := t.Underlying().(type) {
	case *types.Basic:
		switch sortOfBasic(u) {
		case SBool:
			return Sc{TFalse}
		case SF64:
			if ex.realFloats {
				return Sc{Term{"0.0", SReal}}
			}
			return Sc{ex.floatConst("0")}
		case SStr:
			return Sc{ex.strConst("")}
		}
		return Sc{I(0)}
	case *types.Struct:
		if !transparentStruct(t) {
			return Sc{ex.opaqueZero(t)}
		}
		sv := StructV{Typ: u}
		for i := 0; i < u.NumFields(); i++ {
			sv.F = append(sv.F, ex.zeroValue(u.Field(i).Type()))
		}
		return sv
	case *types.Slice:
		return SliceV{I(0), I(0), I(0), I(0)}
	case *types.Pointer:
		return PtrV{Kind: pObj, Ref: I(0), Root: u.Elem()}
	case *types.Signature:
		return FuncV{Ref: I(0)}
	}
	return Sc{I(0)}
}

func (ex *Exec) opaqueZero(t types.Type) Term {
	name := "zero." + sanitize(typeName(t))
	ex.vc.DeclareFun(name, nil, SInt)
	return Term{name, SInt}
}

// symbolic value of a Go type from fresh constants; range facts assumed under pc.
func (ex *Exec) freshValue(hint string, t types.Type, pc Term) Value {
	ls := leavesOf(t)
	var ts []Term
	for _, l := range ls {
		c := ex.vc.Fresh(hint+l.path, leafSortFix(ex, l))
		ts = append(ts, c)
	}
	v := ex.unflatten(t, &ts)
	ex.assumeWellTyped(v, t, pc)
	return v
}

// assumeWellTyped assumes range facts for integer leaves and slice header sanity.
func (ex *Exec) assumeWellTyped(v Value, t types.Type, pc Term) {
	switch x := v.(type) {
	case Sc:
		if isInteger(t) {
			ex.vc.Assume(pc, inRange(x.T, t), "range of "+typeName(t))
		} else if _, isPtrLike := refLike(t); isPtrLike {
			ex.vc.Assume(pc, And(Ge(x.T, I(0)), Lt(x.T, ex.st.alloc)), "ref exists")
		}
	case SliceV:
		ex.vc.Assume(pc, And(Ge(x.Off, I(0)), Ge(x.Len, I(0)), Le(x.Len, x.Cap), Ge(x.Ptr, I(0)), Lt(x.Ptr, ex.st.alloc),
			Implies(Eq(x.Ptr, I(0)), And(Eq(x.Len, I(0)), Eq(x.Cap, I(0)), Eq(x.Off, I(0)))),
			Le(x.Cap, IStr("4611686018427387904"))), "slice header well-formed")
	case StructV:
		st := t.Underlying().(*types.Struct)
		for i, f := range x.F {
			ex.assumeWellTyped(f, st.Field(i).Type(), pc)
		}
	case PtrV:
		if x.Kind == pObj {
			ex.vc.Assume(pc, And(Ge(x.Ref, I(0)), Lt(x.Ref, ex.st.alloc)), "ref exists")
		}
	case FuncV:
		if x.Ref.S != "" {
			ex.vc.Assume(pc, And(Ge(x.Ref, I(0)), Lt(x.Ref, ex.st.alloc)), "ref exists")
		}
	}
}

func refLike(t types.Type) (string, bool) {
	switch t.Underlying().(type) {
	case *types.Pointer:
		return "ptr", true
	case *types.Map:
		return "map", true
	case *types.Chan:
		return "chan", true
	case *types.Interface:
		return "iface", true
	case *types.Signature:
		return "func", true
	}
	return "", false
}

// ---------------------------------------------------------------------------
// constants

func (ex *Exec) strConst(s string) Term {
	if t, ok := ex.strs[s]; ok {
		return t
	}
	name := fmt.Sprintf("str!%d", len(ex.strs))
	ex.vc.DeclareFun(name, nil, SStr)
	t := Term{name, SStr}
	ex.vc.DeclareFun("slen", []Sort{SStr}, SInt)
	ex.vc.AssumeRaw(fmt.Sprintf("(= (slen %s) %d)", name, len(s)), "")
	// distinct from every other literal
	for i := 0; i < len(ex.strs); i++ { // in creation order: the scripts must not depend on map order
		ex.vc.AssumeRaw(fmt.Sprintf("(not (= %s str!%d))", name, i), "")
	}
	if len(s) <= 8 {
		ex.vc.DeclareFun("sbyte", []Sort{SStr, SInt}, SInt)
		for i := 0; i < len(s); i++ {
			ex.vc.AssumeRaw(fmt.Sprintf("(= (sbyte %s %d) %d)", name, i, s[i]), "")
		}
	}
	ex.strs[s] = t
	ex.strNames[name] = s
	return t
}

func (ex *Exec) floatConst(lit string) Term {
	if t, ok := ex.floats[lit]; ok {
		return t
	}
	name := fmt.Sprintf("f64!%d", len(ex.floats))
	ex.vc.DeclareFun(name, nil, SF64)
	t := Term{name, SF64}
	ex.floats[lit] = t
	ex.floatNames[name] = lit
	return t
}
