package main

// govc check / lock: per-property verification runs, evidence, VIOLATION lines.

import (
	"bufio"
	"flag"
	"fmt"
	"os"
	"path/filepath"
	"regexp"
	"runtime"
	"sort"
	"strconv"
	"strings"
	"time"
)

type knownFinding struct {
	Prop, Obligation, Text string
	Fixed                  bool
}

func loadKnownFindings(path string) []knownFinding {
	var out []knownFinding
	f, err := os.Open(path)
	if err != nil {
		return nil
	}
	defer f.Close()
	sc := bufio.NewScanner(f)
	for sc.Scan() {
		l := strings.TrimSpace(sc.Text())
		if l == "" || strings.HasPrefix(l, "#") {
			continue
		}
		kf := knownFinding{}
		switch {
		case strings.HasPrefix(l, "finding:"):
			l = strings.TrimSpace(l[len("finding:"):])
		case strings.HasPrefix(l, "fixed:"):
			kf.Fixed = true
			l = strings.TrimSpace(l[len("fixed:"):])
		default:
			continue
		}
		// property=Cxx obligation=<name up to " :: "> :: text
		if i := strings.Index(l, " :: "); i >= 0 {
			kf.Text = strings.TrimSpace(l[i+4:])
			l = l[:i]
		}
		for _, f := range strings.SplitN(l, " ", 2) {
			if strings.HasPrefix(f, "property=") {
				kf.Prop = f[len("property="):]
			}
		}
		if i := strings.Index(l, "obligation="); i >= 0 {
			kf.Obligation = strings.TrimSpace(l[i+len("obligation="):])
		}
		out = append(out, kf)
	}
	return out
}

// lock file: property -> obligation names expected to exist and be discharged
func loadLock(path string) map[string]map[string]bool {
	out := map[string]map[string]bool{}
	f, err := os.Open(path)
	if err != nil {
		return out
	}
	defer f.Close()
	sc := bufio.NewScanner(f)
	sc.Buffer(make([]byte, 1<<20), 1<<20)
	for sc.Scan() {
		l := sc.Text()
		i := strings.Index(l, "\t")
		if i < 0 {
			continue
		}
		p, n := l[:i], l[i+1:]
		if out[p] == nil {
			out[p] = map[string]bool{}
		}
		out[p][n] = true
	}
	return out
}

type propRun struct {
	id      string
	results []*FuncResult
	lemmas  []*FuncResult
	trusted []string
	scan    []string
	notes   []string
	loadS   float64
	genS    float64
	solveS  float64
}

func propsOf(fc *FuncContract) []string { return fc.Props }

func hasProp(ps []string, id string) bool {
	for _, p := range ps {
		if p == id {
			return true
		}
	}
	return false
}

func runProperty(ld *Loader, specs *Specs, id string, timeoutS int, outDir string) *propRun {
	pr := &propRun{id: id}
	t0 := time.Now()
	for _, fk := range specs.Order {
		fc := specs.Funcs[fk]
		if !hasProp(fc.Props, id) || fc.Inline && len(fc.Ensures) == 0 && len(fc.Loops) == 0 {
			continue
		}
		if fc.Trusted {
			pr.trusted = append(pr.trusted, "trusted contract (not verified): "+fc.Key)
			continue
		}
		sweep := fc.Pragmas["mode"] == "safety"
		pr.results = append(pr.results, VerifyFunc(ld, specs, fk, sweep))
	}
	for _, lm := range specs.Lemmas {
		if !hasProp(lm.Props, id) {
			continue
		}
		if lm.Trusted {
			pr.trusted = append(pr.trusted, "trusted lemma (stated, not checked): "+lm.Name+": "+lm.C.Text)
			continue
		}
		pr.lemmas = append(pr.lemmas, VerifyLemma(ld, specs, lm))
	}
	pr.genS = time.Since(t0).Seconds()
	t1 := time.Now()
	var vcs []*VC
	for _, r := range append(append([]*FuncResult(nil), pr.results...), pr.lemmas...) {
		if r.VC != nil && r.OutOfSubset == "" {
			vcs = append(vcs, r.VC)
		}
	}
	Discharge(vcs, outDir, timeoutS, runtime.NumCPU())
	pr.solveS = time.Since(t1).Seconds()
	return pr
}

func contractDerived(kind string) bool {
	switch kind {
	case "post", "inv-entry", "inv-keep", "variant", "frame", "event", "pre", "lemma", "lock", "monitor", "stable", "objinv", "nopanic", "forbid", "anchors", "cbinv-entry", "cbinv-keep":
		return true
	}
	return false
}

func oblOK(o *Obligation) bool {
	if o.Cover {
		return o.Status != "unsat"
	}
	return o.Status == "unsat"
}

func cmdCheck(args []string) int {
	fs := flag.NewFlagSet("check", flag.ExitOnError)
	id := fs.String("p", "", "property id")
	tier := fs.String("tier", "", "quick|thorough")
	repo := fs.String("repo", repoDir, "repository root")
	keep := fs.Bool("keep", false, "keep SMT files")
	noReplay := fs.Bool("noreplay", false, "skip replay")
	outRoot := fs.String("out", verifDir, "where evidence/ and out/ are written")
	fs.Parse(args)
	if *tier == "" {
		*tier = os.Getenv("VERIF_TIER")
	}
	if *tier == "" {
		*tier = "quick"
	}
	seed := int64(1)
	if s := os.Getenv("VERIF_SEED"); s != "" {
		if n, err := strconv.ParseInt(s, 10, 64); err == nil {
			seed = n
		}
	}
	timeoutS := 10
	if *tier == "thorough" {
		CrossCheck = true
		CallCovers = true
		timeoutS = 60
	}
	start := time.Now()
	evPath := filepath.Join(*outRoot, "evidence", *id+".json")
	os.Remove(evPath)
	ld, specs, err := Load(*repo, verifDir)
	if err != nil {
		fmt.Fprintln(os.Stderr, "govc: cannot load /repo with -tags verif:", err)
		// a tree that does not build cannot be verified; report as broken check input
		return 2
	}
	loadS := time.Since(start).Seconds()
	outDir := filepath.Join(*outRoot, "out", "smt", *id)
	os.RemoveAll(outDir)
	pr := runProperty(ld, specs, *id, timeoutS, outDir)
	pr.loadS = loadS
	if len(pr.results)+len(pr.lemmas) == 0 {
		fmt.Fprintf(os.Stderr, "govc: no function or lemma under contract for property %s\n", *id)
		return 2
	}
	known := loadKnownFindings(filepath.Join(verifDir, "known_findings.txt"))
	lock := loadLock(filepath.Join(verifDir, "obligations.lock"))[*id]

	var all []*Obligation
	generated := map[string]bool{}
	type fail struct {
		name, reason string
		o            *Obligation
		fr           *FuncResult
	}
	var fails []fail
	funcsInfo := []map[string]interface{}{}
	byBackend := map[string]int{}
	var sumT, maxT float64
	slow := []string{}
	unreachableNew := []string{}
	coversUndecided := []string{}
	covers, coversSat := 0, 0
	stubSet := map[string]bool{}
	abstractedAll := map[string]bool{}
	var outOfSubset []string
	for _, r := range append(append([]*FuncResult(nil), pr.results...), pr.lemmas...) {
		info := map[string]interface{}{"function": r.Key}
		if r.OutOfSubset != "" {
			info["out_of_subset"] = r.OutOfSubset
			outOfSubset = append(outOfSubset, r.Key+": "+r.OutOfSubset)
			// every locked obligation of this function is undecided
			n := 0
			for name := range lock {
				if strings.HasPrefix(name, r.Key+"#") {
					n++
				}
			}
			fails = append(fails, fail{name: r.Key + "#subset", reason: "function is outside the verified subset, so none of its obligations is discharged: " + r.OutOfSubset, fr: r})
			funcsInfo = append(funcsInfo, info)
			continue
		}
		kinds := map[string]int{}
		for _, o := range r.VC.obls {
			generated[o.Name] = true
			if o.Cover {
				covers++
				if o.Status == "sat" {
					coversSat++
				} else if o.Status != "unsat" {
					coversUndecided = append(coversUndecided, o.Name)
				}
				if o.Status == "unsat" && (strings.Contains(o.Name, "#cover:return-reachable:") || strings.Contains(o.Name, "-iteration-completes") || strings.Contains(o.Name, "#cover:call-returns:")) && !lock[o.Name] {
					// a return added since the lock was written and excluded by the contract (defensive code): noted, not alarmed
					unreachableNew = append(unreachableNew, o.Name)
					continue
				}
				if o.Status == "unsat" {
					fails = append(fails, fail{name: o.Name, reason: "vacuity guard failed: the formula that must be satisfiable is unsatisfiable (contradictory precondition/invariant or unreachable exit)", o: o, fr: r})
				}
				continue
			}
			all = append(all, o)
			kinds[o.Kind]++
			byBackend[o.Backend]++
			sumT += o.TimeS
			if o.TimeS > maxT {
				maxT = o.TimeS
			}
			if o.TimeS > 2 || o.Retried {
				slow = append(slow, fmt.Sprintf("%s %.2fs %s retried=%v", o.Name, o.TimeS, o.Backend, o.Retried))
			}
			if !oblOK(o) {
				fails = append(fails, fail{name: o.Name, reason: "solver answer: " + o.Status, o: o, fr: r})
			}
		}
		info["obligations_by_kind"] = kinds
		info["stubs"] = r.StubsUsed
		if len(r.AssumedObls) > 0 {
			info["automatic_obligations_assumed_not_proved"] = r.AssumedObls
			abstractedAll[r.Key+": panic-freedom and callee preconditions of this function are assumed, only its contract-derived obligations are proved"] = true
		}
		if len(r.Abstracted) > 0 {
			info["calls_abstracted_as_arbitrary"] = r.Abstracted
			for _, a := range r.Abstracted {
				abstractedAll[r.Key+" -> "+a] = true
			}
		}
		info["inlined"] = r.Inlined
		info["callee_contracts_used"] = r.Callees
		if r.SafetyOnly {
			info["mode"] = "safety sweep (automatic obligations only)"
		}
		for _, s := range r.StubsUsed {
			stubSet[s] = true
		}
		funcsInfo = append(funcsInfo, info)
	}
	// locked contract-derived obligations must still be generated
	for name := range lock {
		if generated[name] {
			continue
		}
		i := strings.Index(name, "#")
		kind := ""
		if i >= 0 {
			rest := name[i+1:]
			if j := strings.Index(rest, ":"); j >= 0 {
				kind = rest[:j]
			}
		}
		if !contractDerived(kind) {
			continue
		}
		skip := false
		for _, f := range fails {
			if f.fr != nil && f.o == nil && strings.HasPrefix(name, f.fr.Key+"#") {
				skip = true
			}
		}
		if !skip {
			fails = append(fails, fail{name: name, reason: "obligation was discharged on the unchanged tree and is no longer generated (its anchor vanished)"})
		}
	}
	sort.Slice(fails, func(i, j int) bool { return fails[i].name < fails[j].name })

	// bounded stand-ins
	var bounded []map[string]interface{}
	bres := runBounded(*id, *tier, seed, *repo)
	for _, b := range bres {
		bounded = append(bounded, b.info)
		for _, v := range b.violations {
			fails = append(fails, fail{name: v.name, reason: v.reason})
		}
	}

	// thorough tier: the must-fail corpus of this property (hand-written mutants, canaries of the
	// repaired defects, independently seeded changes) is run against scratch copies; a mutant that
	// verifies is an engine/contract hole recorded in the evidence (it is not a violation of /repo)
	var mutantInfo map[string]interface{}
	if *tier == "thorough" && os.Getenv("GOVC_NO_MUTANTS") == "" && *repo == repoDir {
		res := runMutants(filepath.Join(verifDir, "selftest"), "", *id, 6, true)
		var missed []string
		caught := 0
		for _, r := range res {
			if r.ok {
				caught++
			} else {
				missed = append(missed, r.name)
			}
		}
		mutantInfo = map[string]interface{}{"mutants_run": len(res), "caught": caught, "not_caught": missed,
			"note": "each mutant is applied to a scratch copy of /repo, must compile, and must make this property's check report a violation"}
	}
	violations := 0
	var knownHit []string
	replayDir := filepath.Join(*outRoot, "out", "replay", *id)
	os.RemoveAll(replayDir)
	for _, f := range fails {
		matched := false
		for _, k := range known {
			if !k.Fixed && k.Prop == *id && k.Obligation == f.name {
				fmt.Printf("KNOWN-FINDING: property=%s %s :: %s\n", *id, f.name, k.Text)
				knownHit = append(knownHit, f.name)
				matched = true
			}
		}
		if matched {
			continue
		}
		violations++
		rp := filepath.Join(replayDir, sanitize(f.name)+".json")
		confirmed := false
		rec := map[string]interface{}{"property": *id, "obligation": f.name, "reason": f.reason}
		if f.o != nil {
			rec["status"] = f.o.Status
			rec["backend"] = f.o.Backend
			rec["position"] = f.o.Pos
			rec["solver_output"] = truncate(f.o.Raw, 4000)
			if f.o.Model != nil {
				m := map[string]string{}
				for k, v := range f.o.Model {
					lbl := f.fr.ParamSyms[k]
					if lbl == "" {
						lbl = k
					}
					m[lbl] = v
				}
				rec["model"] = m
			}
			if !*noReplay {
				rr := replayObligation(ld, specs, f.fr, f.o, *repo)
				rec["replay"] = rr
				confirmed = rr.Confirmed
			}
		}
		writeJSON(rp, rec)
		if confirmed {
			fmt.Printf("VIOLATION property=%s replay=%s\n", *id, rp)
		} else {
			fmt.Printf("VIOLATION property=%s replay=%s no-failing-input-found\n", *id, rp)
		}
		fmt.Printf("  obligation %s: %s\n", f.name, f.reason)
	}
	discharged := 0
	var samples []map[string]interface{}
	for _, o := range all {
		if oblOK(o) {
			discharged++
		}
	}
	step := len(all)/6 + 1
	for i := 0; i < len(all); i += step {
		o := all[i]
		samples = append(samples, map[string]interface{}{"obligation": o.Name, "kind": o.Kind, "status": o.Status, "backend": o.Backend, "time_s": round3(o.TimeS), "smt_bytes": o.SMTSize, "at": o.Pos})
	}
	var trusted []string
	trusted = append(trusted, "x/tools go/ssa builder (NaiveForm) as the semantics of the Go source; gc compiler and runtime",
		"govc itself (VC generator, memory model, spec parser)", "SMT solvers z3 5.1.0 (z3-new), z3 4.8.12, cvc5 1.0.3: unsat answers trusted")
	for _, s := range sortedKeys(stubSet) {
		trusted = append(trusted, "assumed library contract (stub): "+s)
	}
	for _, a := range sortedKeys(abstractedAll) {
		trusted = append(trusted, "call over-approximated as 'changes anything, returns anything, returns' (its panics, termination and preconditions are not checked): "+a)
	}
	trusted = append(trusted, pr.trusted...)
	var assumptions []string
	assumptions = append(assumptions, "integers are mathematical; every arithmetic operation and integer conversion carries a discharged no-overflow obligation, so the mathematical result is the machine result",
		"floating point: uninterpreted operations (expression equality only) unless the function has pragma 'floats real'",
		"strings: uninterpreted sort, literals distinct; no string-language reasoning")
	// contract-level assumptions: those of the functions this property's check touches (under contract, used as
	// callee contract, or inlined), plus the global ones (axioms, trusted lemmas)
	relevant := map[string]bool{}
	for _, r := range append(append([]*FuncResult(nil), pr.results...), pr.lemmas...) {
		relevant[r.Key] = true
		for _, k := range r.Callees {
			relevant[k] = true
		}
		for _, k := range r.Inlined {
			relevant[k] = true
		}
	}
	scanRe := regexp.MustCompile(` in (\S+) \(`)
	for _, s := range specs.Scan {
		if m := scanRe.FindStringSubmatch(s); m != nil && !relevant[m[1]] {
			continue
		}
		if strings.HasPrefix(s, "inline ") || strings.HasPrefix(s, "trusted contract ") {
			f := strings.Fields(s)
			k := f[len(f)-2]
			if strings.HasPrefix(s, "inline ") {
				k = f[1]
			} else {
				k = f[2]
			}
			if !relevant[k] {
				continue
			}
		}
		assumptions = append(assumptions, "scan: "+s)
	}
	assumptions = append(assumptions, ld.notes...)
	assumptions = append(assumptions, notCovered[*id]...)
	ev := evidence{PropertyID: *id, Tier: *tier, Seed: seed, Level: "proof", Assumptions: assumptions, Violations: violations,
		WallS: round3(time.Since(start).Seconds())}
	ev.Coverage = map[string]interface{}{
		"obligations":      len(all),
		"discharged":       discharged,
		"checker_cmd":      fmt.Sprintf("/verif/bin/govc check -p %s -tier %s  (per obligation: z3-new | z3 | cvc5, timeout %ds; quick: raced, first definite answer; thorough: all three run to their own answer and must not disagree)", *id, *tier, timeoutS),
		"trusted_base":     trusted,
		"functions":        funcsInfo,
		"by_backend":       byBackend,
		"solver_time_s":    map[string]float64{"sum": round3(sumT), "max": round3(maxT), "load": round3(pr.loadS), "vcgen": round3(pr.genS), "solve_wall": round3(pr.solveS)},
		"samples":          samples,
		"slow_obligations": slow,
		"new_returns_unreachable_under_the_contract": unreachableNew,
		"covers_undecided":                           coversUndecided,
		"covers":                                     map[string]int{"run": covers, "sat": coversSat},
		"out_of_subset":                              outOfSubset,
		"bounded_standins":                           bounded,
		"known_findings_matched":                     knownHit,
		"arithmetic":                                 "mathematical integers + overflow obligations; floats uninterpreted unless stated",
	}
	if mutantInfo != nil {
		ev.Coverage["must_fail_corpus"] = mutantInfo
	}
	if err := writeJSON(evPath, ev); err != nil {
		fmt.Fprintln(os.Stderr, "govc: cannot write evidence:", err)
		return 2
	}
	if !*keep {
		os.RemoveAll(outDir)
	}
	fmt.Printf("property %s: %d functions/lemmas, %d obligations, %d discharged, %d covers (%d sat), %d violations, %.1fs\n",
		*id, len(pr.results)+len(pr.lemmas), len(all), discharged, covers, coversSat, violations, time.Since(start).Seconds())
	if violations > 0 {
		return 1
	}
	return 0
}

func truncate(s string, n int) string {
	if len(s) > n {
		return s[:n] + "…"
	}
	return s
}

func round3(f float64) float64 { return float64(int64(f*1000+0.5)) / 1000 }

// cmdLock regenerates obligations.lock from the current tree (only obligations that discharge).
func cmdLock(args []string) int {
	CallCovers = true
	fs := flag.NewFlagSet("lock", flag.ExitOnError)
	repo := fs.String("repo", repoDir, "")
	only := fs.String("p", "", "only these properties (comma separated)")
	fs.Parse(args)
	ld, specs, err := Load(*repo, verifDir)
	if err != nil {
		fmt.Fprintln(os.Stderr, err)
		return 2
	}
	ids := map[string]bool{}
	for _, fc := range specs.Funcs {
		for _, p := range fc.Props {
			ids[p] = true
		}
	}
	for _, lm := range specs.Lemmas {
		for _, p := range lm.Props {
			ids[p] = true
		}
	}
	lockPath := filepath.Join(verifDir, "obligations.lock")
	old := loadLock(lockPath)
	var lines []string
	bad := 0
	for _, id := range sortedKeys(ids) {
		if *only != "" && !strings.Contains(","+*only+",", ","+id+",") {
			for n := range old[id] {
				lines = append(lines, id+"\t"+n)
			}
			continue
		}
		outDir := filepath.Join(os.TempDir(), fmt.Sprintf("govc-lock-%d", os.Getpid()))
		pr := runProperty(ld, specs, id, 10, outDir)
		os.RemoveAll(outDir)
		for _, r := range append(append([]*FuncResult(nil), pr.results...), pr.lemmas...) {
			if r.OutOfSubset != "" {
				fmt.Printf("%s: OUT OF SUBSET %s: %s\n", id, r.Key, r.OutOfSubset)
				bad++
				continue
			}
			for _, o := range r.VC.obls {
				if o.Cover {
					// a return statement that was reachable when the lock was written must stay reachable
					if (strings.Contains(o.Name, "#cover:return-reachable:") || strings.Contains(o.Name, "-iteration-completes") || strings.Contains(o.Name, "#cover:call-returns:")) && o.Status == "sat" {
						lines = append(lines, id+"\t"+o.Name)
					}
					continue
				}
				if !oblOK(o) {
					fmt.Printf("%s: NOT DISCHARGED %s (%s)\n", id, o.Name, o.Status)
					bad++
					continue
				}
				lines = append(lines, id+"\t"+o.Name)
			}
		}
	}
	sort.Strings(lines)
	os.WriteFile(lockPath, []byte(strings.Join(lines, "\n")+"\n"), 0o644)
	fmt.Printf("wrote %s: %d obligations, %d not lockable\n", lockPath, len(lines), bad)
	return 0
}

func cmdSelftest(args []string) int { return runSelftest(args) }
