package main

func cmdCheck(args []string) int    { return 2 }
func cmdLock(args []string) int     { return 2 }
func cmdReplay(args []string) int   { return 2 }
func cmdSelftest(args []string) int { return 2 }
