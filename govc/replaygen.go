package main

// Type-directed replay generator: builds concrete Go inputs (scalars, strings, structs, pointers to
// structs, slices of scalars/strings) from a solver model, calls the real function and evaluates the
// contract's postconditions concretely (integers in math/big, old() on an independently built copy of
// the inputs, quantifiers over a bounded index range around the slice lengths involved).

import (
	"fmt"
	"go/types"
	"sort"
	"strings"

	"golang.org/x/tools/go/ssa"
)

type rgen struct {
	ld      *Loader
	specs   *Specs
	pkg     *types.Package
	model   map[string]string
	imports map[string]bool
	strMap  map[string]string // abstract model string -> concrete
	strLits map[string]string // smt constant name -> literal
	maxLen  int
	unsup   string
	helpers map[string]bool
}

func (g *rgen) q(p *types.Package) string {
	if p == g.pkg {
		return ""
	}
	g.imports[p.Path()] = true
	return p.Name()
}

func (g *rgen) typeStr(t types.Type) string { return types.TypeString(t, g.q) }

func (g *rgen) strVal(v string) string {
	if v == "" {
		return `""`
	}
	if lit, ok := g.model["strlit:"+v]; ok {
		return fmt.Sprintf("%q", lit)
	}
	if strings.HasPrefix(v, "\"") && strings.HasSuffix(v, "\"") && len(v) >= 2 { // probe candidates are given literally
		return v
	}
	if c, ok := g.strMap[v]; ok {
		return fmt.Sprintf("%q", c)
	}
	c := fmt.Sprintf("s%d", len(g.strMap))
	g.strMap[v] = c
	return fmt.Sprintf("%q", c)
}

// build renders a Go expression of type t from the model entries under label.
func (g *rgen) build(t types.Type, label string, depth int) string {
	if depth > 4 {
		g.unsup = "nesting too deep"
		return "nil"
	}
	if isTimeTime(t) {
		g.imports["time"] = true
		v := g.model[label]
		if v == "" {
			v = "0"
		}
		if len(v) > 19 { // outside int64 ns: the zero Time
			return "time.Time{}"
		}
		return fmt.Sprintf("time.Unix(0, %s)", v)
	}
	switch u := t.Underlying().(type) {
	case *types.Basic:
		v := g.model[label]
		switch {
		case u.Info()&types.IsBoolean != 0:
			if v == "true" {
				return "true"
			}
			return "false"
		case u.Info()&types.IsString != 0:
			return g.strVal(v)
		case u.Info()&types.IsInteger != 0:
			if v == "" {
				v = "0"
			}
			return fmt.Sprintf("%s(%s)", g.typeStr(t), v)
		case u.Info()&types.IsFloat != 0:
			return "0"
		}
	case *types.Struct:
		if !transparentStruct(t) {
			return g.typeStr(t) + "{}"
		}
		var fs []string
		for i := 0; i < u.NumFields(); i++ {
			f := u.Field(i)
			switch f.Type().Underlying().(type) {
			case *types.Interface:
				// a non-nil interface value in the model is rebuilt from a fixed witness of that type
				if w, ok := ifaceWitness[typeName(f.Type())]; ok && g.model[label+"."+f.Name()] != "0" && g.model[label+"."+f.Name()] != "" {
					fs = append(fs, fmt.Sprintf("%s: %s", f.Name(), w))
				}
				continue
			case *types.Map, *types.Chan, *types.Signature:
				continue
			}
			fs = append(fs, fmt.Sprintf("%s: %s", f.Name(), g.build(f.Type(), label+"."+f.Name(), depth+1)))
		}
		return fmt.Sprintf("%s{%s}", g.typeStr(t), strings.Join(fs, ", "))
	case *types.Pointer:
		if v, ok := g.model[label]; ok && v == "0" {
			return "nil"
		}
		if _, isStruct := u.Elem().Underlying().(*types.Struct); !isStruct || !transparentStruct(u.Elem()) {
			return "nil"
		}
		return "&" + g.build(u.Elem(), label, depth+1)
	case *types.Slice:
		n := atoiDefault(g.model[label+"#len"], 0)
		c := atoiDefault(g.model[label+"#cap"], n)
		if g.model[label+"#ptr"] == "0" {
			return "nil"
		}
		if n > 6 || c > 64 || n < 0 || c < n {
			g.unsup = fmt.Sprintf("slice %s has length %d / capacity %d in the model", label, n, c)
			return "nil"
		}
		if n > g.maxLen {
			g.maxLen = n
		}
		var es []string
		for k := 0; k < n; k++ {
			es = append(es, g.build(u.Elem(), fmt.Sprintf("%s[%d]", label, k), depth+1))
		}
		lit := fmt.Sprintf("%s{%s}", g.typeStr(t), strings.Join(es, ", "))
		if c > n {
			return fmt.Sprintf("append(make(%s, 0, %d), %s...)", g.typeStr(t), c, lit)
		}
		return lit
	}
	return "nil"
}

// specImpls: executable meaning of the uninterpreted spec functions that abstract library calls (the
// library function itself), used only to evaluate postconditions concretely in a replay.
type specImpl struct {
	fn      string
	args    []string
	res     string
	imports []string
}

var specImpls = map[string]specImpl{
	"splitn_n":    {"spSplitNn", []string{"str", "str", "int"}, "int", []string{"strings"}},
	"splitn_i":    {"spSplitNi", []string{"str", "str", "int", "int"}, "str", []string{"strings"}},
	"split_n":     {"spSplitn", []string{"str", "str"}, "int", []string{"strings"}},
	"split_i":     {"spSpliti", []string{"str", "str", "int"}, "str", []string{"strings"}},
	"trim":        {"strings.TrimSpace", []string{"str"}, "str", []string{"strings"}},
	"contains":    {"strings.Contains", []string{"str", "str"}, "bool", []string{"strings"}},
	"hasprefix":   {"strings.HasPrefix", []string{"str", "str"}, "bool", []string{"strings"}},
	"atoi_ok":     {"spAtoiOK", []string{"str"}, "bool", []string{"strconv"}},
	"atoi":        {"spAtoi", []string{"str"}, "int", []string{"strconv"}},
	"itoa":        {"spItoa", []string{"int"}, "str", nil},
	"pdur_ok":     {"spPdurOK", []string{"str"}, "bool", []string{"time"}},
	"pdur":        {"spPdur", []string{"str"}, "int", []string{"time"}},
	"hostport_ok": {"spHPOK", []string{"str"}, "bool", []string{"net"}},
	"hp_host":     {"spHPHost", []string{"str"}, "str", []string{"net"}},
	"hp_port":     {"spHPPort", []string{"str"}, "str", []string{"net"}},
	"joinhp":      {"net.JoinHostPort", []string{"str", "str"}, "str", []string{"net"}},
}

var specImplHelpers = map[string]string{
	"spSplitNn": `func spSplitNn(s, sep string, n *big.Int) *big.Int { return big.NewInt(int64(len(strings.SplitN(s, sep, int(n.Int64()))))) }`,
	"spSplitNi": `func spSplitNi(s, sep string, n, i *big.Int) string { return at(strings.SplitN(s, sep, int(n.Int64())), i) }`,
	"spSplitn":  `func spSplitn(s, sep string) *big.Int { return big.NewInt(int64(len(strings.Split(s, sep)))) }`,
	"spSpliti":  `func spSpliti(s, sep string, i *big.Int) string { return at(strings.Split(s, sep), i) }`,
	"spAtoiOK":  `func spAtoiOK(s string) bool { _, err := strconv.Atoi(s); return err == nil }`,
	"spAtoi":    `func spAtoi(s string) *big.Int { n, _ := strconv.Atoi(s); return big.NewInt(int64(n)) }`,
	"spItoa":    `func spItoa(n *big.Int) string { return n.String() }`,
	"spPdurOK":  `func spPdurOK(s string) bool { _, err := time.ParseDuration(s); return err == nil }`,
	"spPdur":    `func spPdur(s string) *big.Int { d, _ := time.ParseDuration(s); return big.NewInt(int64(d)) }`,
	"spHPOK":    `func spHPOK(s string) bool { _, _, err := net.SplitHostPort(s); return err == nil }`,
	"spHPHost":  `func spHPHost(s string) string { h, _, _ := net.SplitHostPort(s); return h }`,
	"spHPPort":  `func spHPPort(s string) string { _, p, _ := net.SplitHostPort(s); return p }`,
}

// ifaceWitness: concrete values standing for "some non-nil value" of an interface type in a replay.
var ifaceWitness = map[string]string{
	"vegeta.estimator": "newTdigestEstimator(100)",
}

func atoiDefault(s string, d int) int {
	var n int
	if _, err := fmt.Sscanf(s, "%d", &n); err != nil {
		return d
	}
	return n
}

// ---------------------------------------------------------------------------
// compiling postconditions to Go

type cval struct {
	code string
	kind string // "int" (*big.Int), "bool", "str", "go" (a Go value of type t)
	t    types.Type
}

type cenv struct {
	vars map[string]cval
	g    *rgen
	old  map[string]cval
}

func (g *rgen) toBigT(code string, t types.Type) cval {
	if isTimeTime(t) {
		return cval{fmt.Sprintf("big.NewInt(%s.UnixNano())", code), "int", nil}
	}
	if b, ok := t.Underlying().(*types.Basic); ok {
		switch {
		case b.Info()&types.IsBoolean != 0:
			return cval{code, "bool", t}
		case b.Info()&types.IsString != 0:
			return cval{"string(" + code + ")", "str", t}
		case b.Info()&types.IsUnsigned != 0:
			return cval{fmt.Sprintf("new(big.Int).SetUint64(uint64(%s))", code), "int", nil}
		case b.Info()&types.IsInteger != 0:
			return cval{fmt.Sprintf("big.NewInt(int64(%s))", code), "int", nil}
		}
	}
	return cval{code, "go", t}
}

func (e *cenv) compile(x Expr) (cval, error) {
	g := e.g
	switch v := x.(type) {
	case EInt:
		return cval{fmt.Sprintf("bigS(%q)", v.Val), "int", nil}, nil
	case EBool:
		return cval{fmt.Sprint(v.Val), "bool", nil}, nil
	case EStr:
		return cval{fmt.Sprintf("%q", v.Val), "str", nil}, nil
	case EIdent:
		if c, ok := e.vars[v.Name]; ok {
			if c.kind == "go" {
				return g.toBigT(c.code, c.t), nil
			}
			return c, nil
		}
		switch v.Name {
		case "MaxInt64":
			return cval{`bigS("9223372036854775807")`, "int", nil}, nil
		case "MinInt64":
			return cval{`bigS("-9223372036854775808")`, "int", nil}, nil
		case "MaxUint64":
			return cval{`bigS("18446744073709551615")`, "int", nil}, nil
		case "nil":
			return cval{"nil", "nil", nil}, nil
		case "zeroTime":
			return cval{`bigS("-62135596800000000000")`, "int", nil}, nil
		}
		if sf, ok := g.specs.SFuncs[v.Name]; ok && sf.Body != nil && len(sf.Params) == 0 {
			return e.compile(sf.Body)
		}
		return cval{}, fmt.Errorf("identifier %s", v.Name)
	case ESel:
		base, err := e.compile(v.X)
		if err != nil {
			return cval{}, err
		}
		if base.kind != "go" {
			return cval{}, fmt.Errorf("selector on scalar")
		}
		t := base.t
		if p, ok := t.Underlying().(*types.Pointer); ok {
			t = p.Elem()
		}
		st, ok := t.Underlying().(*types.Struct)
		if !ok {
			return cval{}, fmt.Errorf("selector on non-struct")
		}
		idx, ft := fieldIndex(st, v.Name)
		if idx == nil {
			return cval{}, fmt.Errorf("no field %s", v.Name)
		}
		return g.toBigT(base.code+"."+v.Name, ft), nil
	case EStar:
		base, err := e.compile(v.X)
		if err != nil {
			return cval{}, err
		}
		if p, ok := base.t.Underlying().(*types.Pointer); ok && base.kind == "go" {
			return g.toBigT("(*"+base.code+")", p.Elem()), nil
		}
		return cval{}, fmt.Errorf("deref")
	case EIndex:
		base, err := e.compile(v.X)
		if err != nil {
			return cval{}, err
		}
		i, err := e.compile(v.I)
		if err != nil {
			return cval{}, err
		}
		if base.kind == "go" {
			if sl, ok := base.t.Underlying().(*types.Slice); ok && i.kind == "int" {
				return g.toBigT(fmt.Sprintf("at(%s, %s)", base.code, i.code), sl.Elem()), nil
			}
		}
		return cval{}, fmt.Errorf("index")
	case EUn:
		a, err := e.compile(v.X)
		if err != nil {
			return cval{}, err
		}
		if v.Op == "!" && a.kind == "bool" {
			return cval{"!(" + a.code + ")", "bool", nil}, nil
		}
		if v.Op == "-" && a.kind == "int" {
			return cval{"new(big.Int).Neg(" + a.code + ")", "int", nil}, nil
		}
		return cval{}, fmt.Errorf("unary")
	case ECond:
		c, err := e.compile(v.C)
		if err != nil {
			return cval{}, err
		}
		a, err := e.compile(v.A)
		if err != nil {
			return cval{}, err
		}
		b, err := e.compile(v.B)
		if err != nil {
			return cval{}, err
		}
		if a.kind != b.kind {
			return cval{}, fmt.Errorf("conditional of different kinds")
		}
		switch a.kind {
		case "int":
			return cval{fmt.Sprintf("iteI(%s, func() *big.Int { return %s }, func() *big.Int { return %s })", c.code, a.code, b.code), "int", nil}, nil
		case "bool":
			return cval{fmt.Sprintf("((%s && %s) || (!(%s) && %s))", c.code, a.code, c.code, b.code), "bool", nil}, nil
		case "str":
			return cval{fmt.Sprintf("iteS(%s, %s, %s)", c.code, a.code, b.code), "str", nil}, nil
		}
		return cval{}, fmt.Errorf("conditional")
	case EQuant:
		// bounded range for integer variables
		ne := &cenv{vars: map[string]cval{}, g: g, old: e.old}
		for k, c := range e.vars {
			ne.vars[k] = c
		}
		var loops, ends []string
		for _, qv := range v.Vars {
			if qv.Type != "int" {
				return cval{}, fmt.Errorf("quantifier over %s", qv.Type)
			}
			name := "q_" + qv.Name
			ne.vars[qv.Name] = cval{name, "int", nil}
			loops = append(loops, fmt.Sprintf("for _i_%s := int64(-2); _i_%s <= qbound; _i_%s++ { %s := big.NewInt(_i_%s); _ = %s", qv.Name, qv.Name, qv.Name, name, qv.Name, name))
			ends = append(ends, "}")
		}
		body, err := ne.compile(v.Body)
		if err != nil || body.kind != "bool" {
			return cval{}, fmt.Errorf("quantifier body: %v", err)
		}
		if v.Forall {
			return cval{fmt.Sprintf("func() bool { %s; if !(%s) { return false }; %s; return true }()", strings.Join(loops, "; "), body.code, strings.Join(ends, "; ")), "bool", nil}, nil
		}
		return cval{fmt.Sprintf("func() bool { %s; if %s { return true }; %s; return false }()", strings.Join(loops, "; "), body.code, strings.Join(ends, "; ")), "bool", nil}, nil
	case ECall:
		name := ""
		if id, ok := v.Fun.(EIdent); ok {
			name = id.Name
		}
		switch name {
		case "len", "cap":
			a, err := e.compile(v.Args[0])
			if err != nil {
				return cval{}, err
			}
			if a.kind == "go" || a.kind == "str" {
				return cval{fmt.Sprintf("big.NewInt(int64(%s(%s)))", name, a.code), "int", nil}, nil
			}
			return cval{}, fmt.Errorf("len of scalar")
		case "old":
			oe := &cenv{vars: e.old, g: g, old: e.old}
			return oe.compile(v.Args[0])
		case "max", "min":
			a, err := e.compile(v.Args[0])
			if err != nil {
				return cval{}, err
			}
			b, err := e.compile(v.Args[1])
			if err != nil {
				return cval{}, err
			}
			return cval{fmt.Sprintf("%sI(%s, %s)", name, a.code, b.code), "int", nil}, nil
		case "emod":
			a, err := e.compile(v.Args[0])
			if err != nil {
				return cval{}, err
			}
			b, err := e.compile(v.Args[1])
			if err != nil {
				return cval{}, err
			}
			return cval{fmt.Sprintf("new(big.Int).Mod(%s, %s)", a.code, b.code), "int", nil}, nil
		case "isIP", "isV4":
			a, err := e.compile(v.Args[0])
			if err != nil || a.kind != "str" {
				return cval{}, fmt.Errorf("isIP arg")
			}
			g.imports["net"] = true
			if name == "isIP" {
				return cval{fmt.Sprintf("(net.ParseIP(%s) != nil)", a.code), "bool", nil}, nil
			}
			return cval{fmt.Sprintf("(net.ParseIP(%s).To4() != nil)", a.code), "bool", nil}, nil
		}
		if imp, ok := specImpls[name]; ok && len(v.Args) == len(imp.args) {
			var as []string
			for i, a := range v.Args {
				c, err := e.compile(a)
				if err != nil {
					return cval{}, err
				}
				if c.kind != imp.args[i] {
					return cval{}, fmt.Errorf("%s: argument %d is %s", name, i, c.kind)
				}
				as = append(as, c.code)
			}
			for _, im := range imp.imports {
				g.imports[im] = true
			}
			if g.helpers == nil {
				g.helpers = map[string]bool{}
			}
			if _, ok := specImplHelpers[imp.fn]; ok {
				g.helpers[imp.fn] = true
			}
			return cval{fmt.Sprintf("%s(%s)", imp.fn, strings.Join(as, ", ")), imp.res, nil}, nil
		}
		if sf, ok := g.specs.SFuncs[name]; ok && sf.Body != nil {
			ne := &cenv{vars: map[string]cval{}, g: g, old: e.old}
			for k, c := range e.vars {
				ne.vars[k] = c
			}
			for i, p := range sf.Params {
				a, err := e.compileRaw(v.Args[i])
				if err != nil {
					return cval{}, err
				}
				ne.vars[p.Name] = a
			}
			return ne.compile(sf.Body)
		}
		return cval{}, fmt.Errorf("call %s", name)
	case EBin:
		l, err := e.compile(v.L)
		if err != nil {
			return cval{}, err
		}
		r, err := e.compile(v.R)
		if err != nil {
			return cval{}, err
		}
		switch v.Op {
		case "&&":
			return cval{"(" + l.code + " && " + r.code + ")", "bool", nil}, nil
		case "||":
			return cval{"(" + l.code + " || " + r.code + ")", "bool", nil}, nil
		case "==>":
			return cval{"(!(" + l.code + ") || " + r.code + ")", "bool", nil}, nil
		case "<==>":
			return cval{"((" + l.code + ") == (" + r.code + "))", "bool", nil}, nil
		case "==", "!=":
			switch {
			case l.kind == "int" && r.kind == "int":
				return cval{fmt.Sprintf("(%s.Cmp(%s) %s 0)", l.code, r.code, v.Op), "bool", nil}, nil
			case (l.kind == "bool" && r.kind == "bool") || (l.kind == "str" && r.kind == "str"):
				return cval{fmt.Sprintf("((%s) %s (%s))", l.code, v.Op, r.code), "bool", nil}, nil
			case l.kind == "go" && r.kind == "nil":
				return cval{fmt.Sprintf("(%s %s nil)", l.code, v.Op), "bool", nil}, nil
			}
			return cval{}, fmt.Errorf("comparison of %s and %s", l.kind, r.kind)
		case "<", "<=", ">", ">=":
			if l.kind == "int" && r.kind == "int" {
				return cval{fmt.Sprintf("(%s.Cmp(%s) %s 0)", l.code, r.code, v.Op), "bool", nil}, nil
			}
		case "+", "-", "*", "/", "%":
			if l.kind == "int" && r.kind == "int" {
				m := map[string]string{"+": "Add", "-": "Sub", "*": "Mul", "/": "Quo", "%": "Rem"}[v.Op]
				return cval{fmt.Sprintf("new(big.Int).%s(%s, %s)", m, l.code, r.code), "int", nil}, nil
			}
			if l.kind == "str" && r.kind == "str" && v.Op == "+" {
				return cval{"(" + l.code + " + " + r.code + ")", "str", nil}, nil
			}
		}
		return cval{}, fmt.Errorf("operator %s on %s, %s", v.Op, l.kind, r.kind)
	}
	return cval{}, fmt.Errorf("unsupported expression %T", x)
}

// compileRaw keeps composite Go values as they are (for macro arguments).
func (e *cenv) compileRaw(x Expr) (cval, error) {
	if id, ok := x.(EIdent); ok {
		if c, ok := e.vars[id.Name]; ok {
			return c, nil
		}
	}
	return e.compile(x)
}

const replayHelpers2 = `
func bigS(s string) *big.Int { b, _ := new(big.Int).SetString(s, 0); return b }
func iteI(c bool, a, b func() *big.Int) *big.Int { if c { return a() }; return b() }
func iteS(c bool, a, b string) string { if c { return a }; return b }
func maxI(a, b *big.Int) *big.Int { if a.Cmp(b) >= 0 { return a }; return b }
func minI(a, b *big.Int) *big.Int { if a.Cmp(b) <= 0 { return a }; return b }
// at indexes a slice with a big index; out-of-range reads (only reachable under a false guard of the
// specification) yield the zero value
func at[T any](s []T, i *big.Int) T { var z T; if !i.IsInt64() || i.Int64() < 0 || i.Int64() >= int64(len(s)) { return z }; return s[i.Int64()] }
`

// replayCase renders one candidate input as the body of a func() bool (true = a postcondition failed).
func (g *rgen) replayCase(fn *ssa.Function, fr *FuncResult, model map[string]string) (body string, checked, skipped int, unsup string) {
	g.model = model
	g.unsup = ""
	sig := fn.Signature
	env := &cenv{vars: map[string]cval{}, g: g, old: map[string]cval{}}
	var decls, argNames, inputs []string
	for i, p := range fn.Params {
		switch p.Type().Underlying().(type) {
		case *types.Interface, *types.Signature, *types.Chan, *types.Map:
			return "", 0, 0, "parameter " + p.Name() + " is an interface/func/chan/map: needs a replay template"
		}
		a, ao := fmt.Sprintf("a%d", i), fmt.Sprintf("o%d", i)
		lit := g.build(p.Type(), p.Name(), 0)
		decls = append(decls, fmt.Sprintf("\t%s := %s", a, lit))
		decls = append(decls, fmt.Sprintf("\t%s := %s // independent copy for old()", ao, g.build(p.Type(), p.Name(), 0)))
		decls = append(decls, fmt.Sprintf("\t_, _ = %s, %s", a, ao))
		inputs = append(inputs, p.Name()+" = "+lit)
		env.vars[p.Name()] = cval{a, "go", p.Type()}
		env.old[p.Name()] = cval{ao, "go", p.Type()}
		argNames = append(argNames, a)
	}
	if g.unsup != "" {
		return "", 0, 0, "model not replayable: " + g.unsup
	}
	call := ""
	if sig.Recv() != nil {
		call = fmt.Sprintf("%s.%s(%s)", argNames[0], fn.Name(), strings.Join(argNames[1:], ", "))
	} else {
		call = fmt.Sprintf("%s(%s)", fn.Name(), strings.Join(argNames, ", "))
	}
	var resNames []string
	fc := fr.Contract
	for i := 0; i < sig.Results().Len(); i++ {
		rt := sig.Results().At(i).Type()
		rn := fmt.Sprintf("r%d", i)
		resNames = append(resNames, rn)
		n := sig.Results().At(i).Name()
		if fc != nil && i < len(fc.Returns) {
			n = fc.Returns[i]
		}
		cv := cval{rn, "go", rt}
		if n != "" {
			env.vars[n] = cv
		}
		env.vars[fmt.Sprintf("result%d", i)] = cv
		if sig.Results().Len() == 1 {
			env.vars["result"] = cv
		}
	}
	var checks []string
	if fc != nil {
		for i, e := range fc.Ensures {
			c, err := env.compile(e.E)
			if err != nil || c.kind != "bool" {
				skipped++
				continue
			}
			checked++
			checks = append(checks, fmt.Sprintf("\tif !(%s) {\n\t\tfmt.Printf(\"REPLAY-RESULT: violated postcondition %%s\\n\", %q)\n\t\tbad = true\n\t}", c.code, clauseName(e, i)+": "+e.Text))
		}
	}
	var sb strings.Builder
	fmt.Fprintf(&sb, "\tfmt.Printf(\"REPLAY-INPUT: %%s\\n\", %q)\n", strings.Join(inputs, "; "))
	sb.WriteString("\tdefer func() {\n\t\tif r := recover(); r != nil {\n\t\t\tfmt.Printf(\"REPLAY-RESULT: panic %v\\n\", r)\n\t\t\tbad = true\n\t\t}\n\t}()\n")
	sb.WriteString(strings.Join(decls, "\n") + "\n")
	if len(resNames) > 0 {
		fmt.Fprintf(&sb, "\t%s := %s\n", strings.Join(resNames, ", "), call)
		for _, r := range resNames {
			fmt.Fprintf(&sb, "\t_ = %s\n", r)
		}
		fmt.Fprintf(&sb, "\tfmt.Printf(\"REPLAY-CALL: %s = %%v\\n\", []interface{}{%s})\n", strings.ReplaceAll(call, "\"", "'"), strings.Join(resNames, ", "))
	} else {
		fmt.Fprintf(&sb, "\t%s\n\tfmt.Println(\"REPLAY-CALL: %s\")\n", call, strings.ReplaceAll(call, "\"", "'"))
	}
	sb.WriteString(strings.Join(checks, "\n") + "\n")
	sb.WriteString("\treturn bad\n")
	return sb.String(), checked, skipped, ""
}

// genericReplay builds the replay test for a function with heap-shaped inputs: one case per candidate
// input (the solver's model, or - when the solver gave none - probes built from the contract's literals).
func genericReplay(ld *Loader, specs *Specs, fn *ssa.Function, fr *FuncResult, o *Obligation, models []map[string]string, what string) (string, string) {
	pkg := pkgOfFn(fn)
	if pkg == nil || fn.Parent() != nil {
		return "", "closures need a replay template"
	}
	g := &rgen{ld: ld, specs: specs, pkg: pkg, imports: map[string]bool{"fmt": true, "math/big": true, "testing": true},
		strMap: map[string]string{}, strLits: fr.StrNames}
	var cases []string
	checked, skipped := 0, 0
	for _, m := range models {
		body, c, sk, unsup := g.replayCase(fn, fr, m)
		if body == "" {
			if len(models) == 1 {
				return "", unsup
			}
			continue
		}
		checked, skipped = c, sk
		cases = append(cases, body)
	}
	if len(cases) == 0 {
		return "", "no replayable candidate input"
	}
	var sb strings.Builder
	fmt.Fprintf(&sb, "package %s\n\nimport (\n", pkg.Name())
	var ims []string
	for im := range g.imports {
		ims = append(ims, im)
	}
	sort.Strings(ims)
	for _, im := range ims {
		fmt.Fprintf(&sb, "\t%q\n", im)
	}
	sb.WriteString(")\n")
	sb.WriteString(replayHelpers2)
	for _, h := range sortedKeys(g.helpers) {
		sb.WriteString(specImplHelpers[h] + "\n")
	}
	fmt.Fprintf(&sb, "\nvar _ = big.NewInt\n\nconst qbound = int64(%d)\n\n", g.maxLen+2)
	for i, c := range cases {
		fmt.Fprintf(&sb, "func govcReplayCase%d() (bad bool) {\n%s}\n\n", i, c)
	}
	sb.WriteString("func TestGovcReplay(t *testing.T) {\n")
	for i := range cases {
		fmt.Fprintf(&sb, "\tif govcReplayCase%d() {\n\t\treturn\n\t}\n", i)
	}
	sb.WriteString("\tfmt.Println(\"REPLAY-RESULT: held\")\n}\n")
	return sb.String(), fmt.Sprintf("typed replay of %s: %d postconditions evaluated concretely, %d not expressible in Go (ghost state / uninterpreted functions)", what, checked, skipped)
}

// probeModels: candidate inputs for a function over scalars and strings when the solver decided nothing:
// every string parameter ranges over the string literals of the contract, integers over a few small values.
func probeModels(fn *ssa.Function, fr *FuncResult) []map[string]string {
	var lits []string
	seen := map[string]bool{}
	var walk func(e Expr)
	walk = func(e Expr) {
		switch v := e.(type) {
		case EStr:
			if !seen[v.Val] {
				seen[v.Val] = true
				lits = append(lits, v.Val)
			}
		case EBin:
			walk(v.L)
			walk(v.R)
		case EUn:
			walk(v.X)
		case ECall:
			for _, a := range v.Args {
				walk(a)
			}
		case ECond:
			walk(v.C)
			walk(v.A)
			walk(v.B)
		case EQuant:
			walk(v.Body)
		case EIndex:
			walk(v.X)
			walk(v.I)
		case ESel:
			walk(v.X)
		}
	}
	if fr.Contract == nil {
		return nil
	}
	for _, c := range fr.Contract.Ensures {
		walk(c.E)
	}
	for _, c := range fr.Contract.Requires {
		walk(c.E)
	}
	if len(lits) == 0 {
		return nil
	}
	var labels, intLabels []string
	var collect func(t types.Type, label string, depth int)
	collect = func(t types.Type, label string, depth int) {
		if depth > 6 {
			return
		}
		switch u := t.Underlying().(type) {
		case *types.Basic:
			if u.Info()&types.IsString != 0 {
				labels = append(labels, label)
			} else if u.Info()&types.IsInteger != 0 {
				intLabels = append(intLabels, label)
			}
		case *types.Pointer:
			collect(u.Elem(), label, depth+1)
		case *types.Struct:
			if transparentStruct(t) {
				for i := 0; i < u.NumFields(); i++ {
					collect(u.Field(i).Type(), label+"."+u.Field(i).Name(), depth+1)
				}
			}
		}
	}
	for _, p := range fn.Params {
		collect(p.Type(), p.Name(), 0)
	}
	if len(labels) == 0 || len(labels) > 2 {
		return nil
	}
	var out []map[string]string
	var rec func(i int, m map[string]string)
	rec = func(i int, m map[string]string) {
		if len(out) >= 32 {
			return
		}
		if i == len(labels) {
			for _, iv := range []string{"0", "7"} { // integer leaves: all zero, all seven
				c := map[string]string{}
				for k, v := range m {
					c[k] = v
				}
				for _, l := range intLabels {
					c[l] = iv
				}
				out = append(out, c)
				if len(intLabels) == 0 {
					break
				}
			}
			return
		}
		for _, l := range lits {
			m[labels[i]] = fmt.Sprintf("%q", l)
			rec(i+1, m)
		}
	}
	rec(0, map[string]string{})
	return out
}
