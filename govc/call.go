package main

// Calls: builtins, contracts of callees (modular), inlining, library stubs, type contracts;
// frame conditions; anchors (ghost code attached to instructions).

import (
	"fmt"
	"go/token"
	"go/types"
	"sort"
	"strings"

	"golang.org/x/tools/go/ssa"
)

func calleeName(c *ssa.CallCommon) string {
	if c.IsInvoke() {
		return chanName(c.Value) + "." + c.Method.Name()
	}
	switch f := c.Value.(type) {
	case *ssa.Function:
		return stubKey(f)
	case *ssa.Builtin:
		return f.Name()
	case *ssa.MakeClosure:
		return stubKey(f.Fn.(*ssa.Function))
	}
	return chanName(c.Value)
}

// stubKey: "strconv.Atoi", "(*sync.Mutex).Lock", "(*jlexer.Lexer).Error", "(*Histogram).Add" (package path -> package name).
func stubKey(f *ssa.Function) string {
	s := f.String()
	if f.Pkg != nil {
		s = strings.ReplaceAll(s, f.Pkg.Pkg.Path(), f.Pkg.Pkg.Name())
	} else if recv := f.Signature.Recv(); recv != nil {
		if n := namedOf(recv.Type()); n != nil && n.Obj().Pkg() != nil {
			s = strings.ReplaceAll(s, n.Obj().Pkg().Path(), n.Obj().Pkg().Name())
		}
	}
	// remaining long paths (e.g. wrappers): keep the last path element
	for {
		i := strings.Index(s, "/")
		if i < 0 {
			break
		}
		// remove from the start of the path token to the last '/'
		j := i
		for j > 0 && !strings.ContainsRune("(*[] ,", rune(s[j-1])) {
			j--
		}
		k := i
		for k < len(s) && !strings.ContainsRune(").[], ", rune(s[k])) {
			if s[k] == '/' {
				i = k
			}
			k++
		}
		s = s[:j] + s[i+1:]
	}
	return s
}

func namedOf(t types.Type) *types.Named {
	if p, ok := t.(*types.Pointer); ok {
		t = p.Elem()
	}
	n, _ := t.(*types.Named)
	return n
}

// contractKey: key used in the contract files of the function's own package.
func contractKey(f *ssa.Function) string {
	if f.Pkg != nil {
		return f.RelString(f.Pkg.Pkg)
	}
	if p := f.Parent(); p != nil && p.Pkg != nil {
		return f.RelString(p.Pkg.Pkg)
	}
	return f.String()
}

func (ex *Exec) findContract(f *ssa.Function) *FuncContract {
	pkg := pkgOfFn(f)
	if pkg == nil {
		return nil
	}
	if strings.HasPrefix(pkg.Path(), modPrefix) {
		if fc, ok := ex.specs.Funcs[pkg.Path()+"::"+contractKey(f)]; ok {
			return fc
		}
		return nil
	}
	return nil
}

func (ex *Exec) doCall(instr ssa.Instruction, c *ssa.CallCommon, pos token.Pos) Value {
	var args []Value
	for _, a := range c.Args {
		args = append(args, ex.val(a))
	}
	var fn Value
	if !c.IsInvoke() {
		if b, ok := c.Value.(*ssa.Builtin); ok {
			ex.fireAnchorsBefore("call", b.Name(), c, args, pos)
			res := ex.builtin(b, c, args, pos)
			ex.fireAnchorsCall("call", b.Name(), c, args, res, pos)
			return res
		}
		fn = ex.val(c.Value)
	} else {
		fn = ex.val(c.Value)
	}
	return ex.callValue(instr, c, fn, args, pos)
}

func (ex *Exec) resultValue(sig *types.Signature, vals []Value) Value {
	switch sig.Results().Len() {
	case 0:
		return TupleV{}
	case 1:
		return vals[0]
	}
	return TupleV(vals)
}

func (ex *Exec) callValue(instr ssa.Instruction, c *ssa.CallCommon, fn Value, args []Value, pos token.Pos) Value {
	sig := c.Signature()
	name := calleeName(c)
	ex.yield()
	if name == "(*sync.Once).Do" {
		ex.fireAnchorsBefore("call", name, c, args, pos)
		res := ex.onceDo(c, args, pos)
		ex.fireAnchorsCall("call", name, c, args, res, pos)
		return res
	}
	ex.fireAnchorsBefore("call", name, c, args, pos)
	var res Value
	switch {
	case c.IsInvoke():
		res = ex.callInvoke(c, fn, args, pos)
	default:
		fv, ok := fn.(FuncV)
		if !ok {
			panic(unsupported(fmt.Sprintf("call of %T", fn)))
		}
		if fv.Fn != nil {
			res = ex.callStatic(c, fv, args, pos)
		} else if strings.HasPrefix(fv.Ref.S, "builtin.") {
			b := c.Value.(*ssa.Builtin)
			res = ex.builtin(b, c, args, pos)
		} else {
			res = ex.callDynamic(c, fv, args, pos)
		}
	}
	_ = sig
	ex.fireAnchorsCall("call", name, c, args, res, pos)
	return res
}

func (ex *Exec) callStatic(c *ssa.CallCommon, fv FuncV, args []Value, pos token.Pos) Value {
	f := fv.Fn
	sig := f.Signature
	key := stubKey(f)
	// 1. contract in the repository
	if fc := ex.findContract(f); fc != nil && !(fc.Inline) {
		ex.calleesUsed[contractKey(f)] = true
		names, typs := paramNames(f)
		all := append(append([]Value(nil), args...), fv.Free...)
		for _, fvr := range f.FreeVars {
			names = append(names, fvr.Name())
			typs = append(typs, fvr.Type())
		}
		return ex.applyContract(fc, key, names, typs, all, sig, pos, pkgOfFn(f))
	}
	// 2. library stub
	if st, ok := ex.specs.Stubs[key]; ok {
		ex.stubsUsed[key] = true
		var names []string
		var typs []types.Type
		for i, p := range st.Params {
			names = append(names, p.Name)
			if i < len(c.Args) {
				typs = append(typs, c.Args[i].Type())
			} else {
				typs = append(typs, nil)
			}
		}
		if len(names) != len(args) {
			panic(unsupported(fmt.Sprintf("stub %s declares %d parameters, call has %d", key, len(names), len(args))))
		}
		return ex.applyContract(st, key, names, typs, args, sig, pos, nil)
	}
	// 3. inline: closures of the function under analysis, or callees marked inline
	pkg := pkgOfFn(f)
	inModule := pkg != nil && strings.HasPrefix(pkg.Path(), modPrefix)
	fc := ex.findContract(f)
	isLocalClosure := f.Parent() != nil && inModule
	if inModule && len(f.Blocks) > 0 && ((fc != nil && fc.Inline) || isLocalClosure || f.Synthetic != "") {
		return ex.inlineCall(c, fv, args, pos, fc)
	}
	if ex.safetyOnly && inModule && len(f.Blocks) > 0 && ex.fr.depth < 3 {
		return ex.inlineCall(c, fv, args, pos, fc)
	}
	if ex.abstractUnknown() {
		return ex.abstractCall(key, args, sig)
	}
	panic(unsupported("call to " + key + " which has neither contract, stub nor inline marking"))
}

// abstractUnknown: `pragma unknowncalls havoc` on the function under contract: a call without contract, stub
// or inline marking is over-approximated - it may change every heap location, every ghost field and every
// local whose address it receives, may allocate, and returns arbitrary values of its result types. What is
// proved about the caller then holds whatever the callee does, provided it returns (its own panics,
// non-termination and preconditions are NOT checked; the evidence lists every call abstracted this way).
// CallCovers: thorough tier and `govc lock`/`dev`: a reachability cover after every call with postconditions.
var CallCovers bool

func (ex *Exec) abstractUnknown() bool {
	return ex.top != nil && ex.top.contract != nil && ex.top.contract.Pragmas["unknowncalls"] == "havoc"
}

func (ex *Exec) abstractCall(key string, args []Value, sig *types.Signature) Value {
	ex.abstracted[key] = true
	items := []modItem{{keyPrefix: "", level: 0}}
	for _, a := range args {
		if p, ok := a.(PtrV); ok && p.Kind == pLocal {
			items = append(items, ex.locOfPtr(p, ex.st)...)
		}
	}
	pre := ex.st.clone()
	ex.havocItems(items, pre)
	// `keeps`: object fields the abstracted calls are assumed not to write get their values back
	if fc := ex.top.contract; fc != nil && len(fc.Keeps) > 0 {
		saved := ex.fr
		ex.fr = ex.top
		env := ex.topEnv()
		ex.fr = saved
		for _, it := range ex.evalModifies(fc.Keeps, ex.entry, env) {
			if it.level != 1 {
				panic(unsupported("keeps: only fields of one object (x.f, *p)"))
			}
			for _, key := range sortedKeys(ex.st.heap) {
				srt := ex.heapSort[key]
				if srt == "" || !it.covers(key) || keyLevel(key, srt) != 1 {
					continue
				}
				old, ok := pre.heap[key]
				if !ok {
					old, ok = ex.heap0[key] // not touched before this call: still the entry heap
				}
				if ok {
					ex.hStore1(key, srt, it.ref, Sel(old, it.ref))
				}
			}
		}
	}
	na := ex.vc.Fresh("alloc", SInt)
	ex.vc.Assume(ex.st.pc, Ge(na, ex.st.alloc), "")
	ex.st.alloc = na
	return ex.freshResults(sig)
}

func paramNames(f *ssa.Function) ([]string, []types.Type) {
	var ns []string
	var ts []types.Type
	for _, p := range f.Params {
		ns = append(ns, p.Name())
		ts = append(ts, p.Type())
	}
	return ns, ts
}

func (ex *Exec) inlineCall(c *ssa.CallCommon, fv FuncV, args []Value, pos token.Pos, fc *FuncContract) Value {
	f := fv.Fn
	if ex.fr.depth > 6 {
		panic(unsupported("inlining too deep at " + f.String()))
	}
	ex.inlined[contractKey(f)] = true
	ex.frames++
	nf := &Frame{id: ex.frames, fn: f, regs: map[ssa.Value]Value{}, params: args, free: fv.Free, contract: fc, depth: ex.fr.depth + 1}
	st := ex.st.clone()
	savedDefers := st.defers
	st.defers = nil
	exits := ex.runBody(nf, st)
	if len(exits) == 0 {
		// callee never returns normally
		ex.st = st
		ex.st.pc = TFalse
		return ex.freshResults(f.Signature)
	}
	var sts []*State
	for _, e := range exits {
		sts = append(sts, e.st)
	}
	var conds []Term
	for _, s := range sts {
		conds = append(conds, s.pc)
	}
	merged := ex.mergeStates(sts)
	merged.defers = savedDefers
	ex.st = merged
	var res []Value
	for i := 0; i < f.Signature.Results().Len(); i++ {
		var vs []Value
		for _, e := range exits {
			vs = append(vs, e.res[i])
		}
		res = append(res, ex.mergeValues(conds, vs, "ret"))
	}
	return ex.resultValue(f.Signature, res)
}

func (ex *Exec) freshResults(sig *types.Signature) Value {
	var vs []Value
	for i := 0; i < sig.Results().Len(); i++ {
		vs = append(vs, ex.freshValue("res", sig.Results().At(i).Type(), ex.st.pc))
	}
	return ex.resultValue(sig, vs)
}

func (ex *Exec) callInvoke(c *ssa.CallCommon, recv Value, args []Value, pos token.Pos) Value {
	it := c.Value.Type()
	key := typeName(it) + "." + c.Method.Name()
	// statically known concrete receiver with an in-repo method?
	r := sc(recv)
	// `pragma ifacecalls abstract`: interface calls always go through the interface's type contract
	abstract := ex.top != nil && ex.top.contract != nil && ex.top.contract.Pragmas["ifacecalls"] == "abstract"
	if b, ok := ex.boxes[r.S]; ok && !abstract {
		if m := ex.ld.prog.LookupMethod(b.t, c.Method.Pkg(), c.Method.Name()); m != nil {
			if ex.findContract(m) != nil || ex.specs.Stubs[stubKey(m)] != nil {
				return ex.callStatic(c, FuncV{Fn: m}, append([]Value{b.v}, args...), pos)
			}
		}
	}
	st, ok := ex.specs.Stubs[key]
	if !ok {
		if ex.abstractUnknown() {
			return ex.abstractCall(key, append([]Value{recv}, args...), c.Signature())
		}
		panic(unsupported("interface call " + key + " has no type contract"))
	}
	ex.stubsUsed[key] = true
	names := []string{"self"}
	typs := []types.Type{it}
	for i, p := range st.Params {
		names = append(names, p.Name)
		if i < len(c.Args) {
			typs = append(typs, c.Args[i].Type())
		}
	}
	all := append([]Value{recv}, args...)
	if len(names) != len(all) {
		panic(unsupported(fmt.Sprintf("type contract %s declares %d parameters, call has %d", key, len(names)-1, len(args))))
	}
	return ex.applyContract(st, key, names, typs, all, c.Signature(), pos, nil)
}

// callDynamic: call through a func value with unknown target: type contract of the named func type.
func (ex *Exec) callDynamic(c *ssa.CallCommon, fv FuncV, args []Value, pos token.Pos) Value {
	t := c.Value.Type()
	key := typeName(t)
	if _, ok := t.(*types.Named); !ok {
		key = "func:" + chanName(c.Value)
	}
	st, ok := ex.specs.Stubs[key]
	if !ok {
		if ex.abstractUnknown() {
			return ex.abstractCall("func value of type "+key, args, c.Signature())
		}
		panic(unsupported("call through func value of type " + key + " has no type contract"))
	}
	ex.stubsUsed[key] = true
	names := []string{"self"}
	typs := []types.Type{t}
	for i, p := range st.Params {
		names = append(names, p.Name)
		if i < len(c.Args) {
			typs = append(typs, c.Args[i].Type())
		}
	}
	all := append([]Value{fv}, args...)
	if len(names) != len(all) {
		panic(unsupported(fmt.Sprintf("type contract %s declares %d parameters, call has %d", key, len(names)-1, len(args))))
	}
	return ex.applyContract(st, key, names, typs, all, c.Signature(), pos, nil)
}

// applyContract: assert requires, havoc modifies, assume ensures.
func (ex *Exec) applyContract(fc *FuncContract, key string, names []string, typs []types.Type, args []Value, sig *types.Signature, pos token.Pos, pkg *types.Package) Value {
	env := &Env{vars: map[string]TV{}, pkg: pkg}
	if pkg == nil {
		env.pkg = pkgOfFn(ex.top.fn)
	}
	for i, n := range names {
		if n == "" || n == "_" {
			continue
		}
		var t types.Type
		if i < len(typs) {
			t = typs[i]
		}
		env.vars[n] = TV{args[i], t}
	}
	pre := ex.st.clone()
	env.old = pre
	ptxt := ex.posString(pos)
	// the callee's ghost variables are existential at the call site
	ex.lastCalleeGhosts = map[string]TV{}
	for _, g := range fc.Ghosts {
		srt := specSort(g.Type, ex)
		t := tInt
		if srt == SBool {
			t = tBool
		}
		env.vars[g.Name] = TV{Sc{ex.vc.Fresh("cg."+g.Name, srt)}, t}
		ex.lastCalleeGhosts[g.Name] = env.vars[g.Name]
	}
	for i, r := range fc.Requires {
		g := ex.evalBool(r.E, ex.st, env)
		ex.vc.Oblige("pre", fmt.Sprintf("%s/%s", key, clauseName(r, i)), ex.st.pc, g, ptxt)
		ex.vc.Assume(ex.st.pc, g, "")
	}
	// effects
	if fc.HasMod && len(fc.Modifies) > 0 {
		items := ex.evalModifies(fc.Modifies, pre, env)
		ex.guardModifies(items, key, pos)
		ex.havocItems(items, pre)
	}
	if cb := fc.Pragmas["callback"]; cb != "" {
		ex.runCallback(fc, cb, env, pos)
	}
	if fc.Pragmas["allocates"] != "no" {
		na := ex.vc.Fresh("alloc", SInt)
		ex.vc.Assume(ex.st.pc, Ge(na, ex.st.alloc), "")
		ex.st.alloc = na
	}
	// results
	var res []Value
	rnames := fc.Returns
	if fc.IsStub {
		rnames = nil
		for _, r := range fc.Results {
			rnames = append(rnames, r.Name)
		}
	}
	for i := 0; i < sig.Results().Len(); i++ {
		rt := sig.Results().At(i).Type()
		v := ex.freshValue("r."+sanitize(key), rt, ex.st.pc)
		res = append(res, v)
		n := sig.Results().At(i).Name()
		if i < len(rnames) && rnames[i] != "" {
			n = rnames[i]
		}
		if n != "" && n != "_" {
			env.vars[n] = TV{v, rt}
		}
		env.vars[fmt.Sprintf("result%d", i)] = TV{v, rt}
		if sig.Results().Len() == 1 {
			env.vars["result"] = TV{v, rt}
		}
	}
	for _, e := range fc.Ensures {
		// a postcondition that mentions a local of the callee (or one of its anchor-bound names) says
		// nothing to callers: it is skipped here (assuming less is sound)
		var g Term
		err := runGuarded(func() { g = ex.evalBool(e.E, ex.st, env) })
		if err != nil {
			if strings.Contains(err.Error(), "unknown identifier") {
				continue
			}
			panic(unsupported(err.Error()))
		}
		ex.vc.Assume(ex.st.pc, g, "post of "+key)
	}
	if fc.Pragmas["noreturn"] != "" {
		ex.st.pc = TFalse
	} else if len(fc.Ensures) > 0 && !ex.safetyOnly && ex.fr == ex.top && CallCovers {
		// vacuity: the callee's postconditions must be satisfiable here (an effect claimed in `ensures` but
		// missing from `modifies` makes them contradictory and every path after the call vacuous)
		ex.vc.Cover("call-returns:"+key, ex.st.pc, TTrue, ex.posString(pos))
	}
	return ex.resultValue(sig, res)
}

// ---------------------------------------------------------------------------
// modifies

type modItem struct {
	keyPrefix string // heap keys covered: exact key or prefix (all leaves below)
	exact     bool
	level     int // 1: obj key (index r); 2: elem/map key (r, i)
	ref       Term
	lo, hi    Term // level 2: index range [lo,hi) ; empty S = all indices
	single    bool // level 2: exactly index lo
	idxSort   Sort
	anyType   bool // level 0 with a type name: every object of that type
}

func (ex *Exec) evalModifies(cs []Clause, st *State, env *Env) []modItem {
	var out []modItem
	for _, c := range cs {
		out = append(out, ex.evalLoc(c.E, st, env)...)
	}
	return out
}

func (ex *Exec) evalLoc(e Expr, st *State, env *Env) []modItem {
	switch x := e.(type) {
	case EStar: // *p : every field of the pointee
		v := ex.eval(x.X, st, env)
		p, ok := v.V.(PtrV)
		if !ok {
			panic(unsupported("modifies: * of non-pointer"))
		}
		return ex.locOfPtr(p, st)
	case ESel:
		p, _ := ex.placeOf(x, st, env)
		return ex.locOfPtr(p, st)
	case EIndex:
		v := ex.eval(x.X, st, env)
		switch s := v.V.(type) {
		case SliceV:
			et := elemTypeOf(v.T)
			it := modItem{keyPrefix: elemKey(et, nil), level: 2, ref: s.Ptr, idxSort: SInt}
			if st2, ok := x.I.(EStar); ok && st2.X == nil {
				it.lo, it.hi = s.Off, Add(s.Off, s.Len)
			} else if id, ok := x.I.(EIdent); ok && id.Name == "cap" {
				it.lo, it.hi = s.Off, Add(s.Off, s.Cap)
			} else {
				i := sc(ex.eval(x.I, st, env).V)
				it.lo, it.single = Idx(s.Off, i), true
			}
			return []modItem{it}
		case Sc:
			if mt, ok := v.T.Underlying().(*types.Map); ok {
				it := modItem{keyPrefix: mapKeyBase(mt) + "#", level: 2, ref: s.T, idxSort: ex.keySort(mt)}
				if st2, ok := x.I.(EStar); !(ok && st2.X == nil) {
					it.lo, it.single = ex.scalarOf(ex.eval(x.I, st, env).V), true
				}
				card := modItem{keyPrefix: mapKeyBase(mt) + "#card", exact: true, level: 1, ref: s.T}
				return []modItem{it, card}
			}
		}
		panic(unsupported("modifies: index of unsupported value"))
	case EIdent:
		// a captured variable of the closure under contract: its cell
		if ex.top != nil {
			for i, fv := range ex.top.fn.FreeVars {
				if fv.Name() == x.Name {
					return ex.locOfPtr(ex.top.free[i].(PtrV), st)
				}
			}
		}
		// a local pointer / slice parameter by name: treat as *p
		v := ex.eval(x, st, env)
		if p, ok := v.V.(PtrV); ok {
			return ex.locOfPtr(p, st)
		}
		if x.Name == "heap" {
			return []modItem{{keyPrefix: "", level: 0}}
		}
	case ECall:
		if id, ok := x.Fun.(EIdent); ok && id.Name == "any" {
			// any(Type): every object of that type (all fields)
			n := ""
			switch a := x.Args[0].(type) {
			case EIdent:
				n = a.Name
			case ESel:
				n = a.X.(EIdent).Name + "." + a.Name
			}
			return []modItem{{keyPrefix: n, level: 0, exact: false, anyType: true}}
		}
		if id, ok := x.Fun.(EIdent); ok && id.Name == "ghost" {
			// ghost(name, ref): ghost per-object state
			n := x.Args[0].(EIdent).Name
			if id, ok := x.Args[1].(EIdent); ok && id.Name == "all" {
				// ghost(name, all): the ghost field of every object
				return []modItem{{keyPrefix: "ghost<" + n + ">", exact: true, level: 0}}
			}
			r := ex.scalarOf(ex.eval(x.Args[1], st, env).V)
			return []modItem{{keyPrefix: "ghost<" + n + ">", exact: true, level: 1, ref: r}}
		}
	}
	panic(unsupported(fmt.Sprintf("modifies: unsupported location %v", e)))
}

func (ex *Exec) locOfPtr(p PtrV, st *State) []modItem {
	switch p.Kind {
	case pObj:
		return []modItem{{keyPrefix: objKey(p.Root, p.Path), level: 1, ref: p.Ref}}
	case pElem:
		return []modItem{{keyPrefix: elemKey(p.Root, p.Path), level: 2, ref: p.Ref, lo: p.Idx, single: true, idxSort: SInt}}
	case pLocal:
		return []modItem{{keyPrefix: "local", level: -1, ref: Term{fmt.Sprintf("%p/%d", p.Cell.a, p.Cell.frame), SInt}, lo: Term{S: pathKey(p.Path)}}}
	case pGlobal:
		return []modItem{{keyPrefix: "glob<" + p.Glob.Pkg.Pkg.Name() + "." + p.Glob.Name() + ">", level: 0}}
	}
	panic(unsupported("modifies: pointer kind"))
}

func pathKey(p []int) string { return fmt.Sprint(p) }

func (it modItem) covers(key string) bool {
	if it.level == 0 && it.keyPrefix == "" {
		return true
	}
	if it.anyType {
		return strings.HasPrefix(key, it.keyPrefix+".") || key == "cell<"+it.keyPrefix+">" || strings.HasPrefix(key, "cell<"+it.keyPrefix+">")
	}
	if it.exact {
		return key == it.keyPrefix
	}
	if key == it.keyPrefix {
		return true
	}
	if strings.HasPrefix(key, it.keyPrefix) {
		rest := key[len(it.keyPrefix):]
		return rest == "" || rest[0] == '.' || rest[0] == '#' || strings.HasSuffix(it.keyPrefix, "#")
	}
	return false
}

func sortLevels(s Sort) int {
	n := 0
	for strings.HasPrefix(string(s), "(Array ") {
		n++
		s = elemSort(s)
	}
	return n
}

// inMod builds the condition "location (r[,i]) of heap key is covered by the items".
func (ex *Exec) inMod(items []modItem, key string, r, i Term) Term {
	var cs []Term
	for _, it := range items {
		if !it.covers(key) {
			continue
		}
		switch it.level {
		case 0:
			return TTrue
		case 1:
			cs = append(cs, Eq(r, it.ref))
		case 2:
			c := Eq(r, it.ref)
			if i.S != "" {
				if it.single {
					c = And(c, Eq(i, it.lo))
				} else if it.lo.S != "" {
					c = And(c, Le(it.lo, i), Lt(i, it.hi))
				}
			}
			cs = append(cs, c)
		}
	}
	return Or(cs...)
}

// havocItems: every covered heap key gets a fresh value outside which nothing changes.
func (ex *Exec) havocItems(items []modItem, pre *State) {
	// local cells written through pointers
	for _, it := range items {
		if it.level == -1 {
			for _, k := range sortedCells(ex.st.cells) {
				if fmt.Sprintf("%p/%d", k.a, k.frame) == it.ref.S {
					t := k.a.Type().(*types.Pointer).Elem()
					// havoc the addressed part
					var path []int
					fmt.Sscan(strings.Trim(it.lo.S, "[]"), &path)
					p := parsePath(it.lo.S)
					nv := ex.freshValue("hc."+k.a.Comment, typeAtPath(t, p), ex.st.pc)
					ex.st.cells[k] = setPath(ex.st.cells[k], p, nv)
				}
			}
		}
	}
	keys := map[string]bool{}
	for k := range ex.heap0 {
		keys[k] = true
	}
	for k := range ex.st.heap {
		keys[k] = true
	}
	for _, key := range sortedKeys(keys) {
		srt := ex.heapSort[key]
		if srt == "" {
			continue
		}
		covered := false
		for _, it := range items {
			if it.level >= 0 && it.covers(key) {
				covered = true
			}
		}
		if !covered {
			continue
		}
		old := ex.heapGet(key, srt)
		ex.noteHeapWrite(key)
		ex.havocKey(items, key, srt, old)
	}
}

func parsePath(s string) []int {
	s = strings.Trim(s, "[]")
	var out []int
	for _, f := range strings.Fields(s) {
		var n int
		fmt.Sscan(f, &n)
		out = append(out, n)
	}
	return out
}

// placeOf resolves an lvalue expression (x.f, x.f.g, *p) to the location it denotes.
func (ex *Exec) placeOf(e Expr, st *State, env *Env) (PtrV, types.Type) {
	switch x := e.(type) {
	case EStar:
		v := ex.eval(x.X, st, env)
		p, ok := v.V.(PtrV)
		if !ok {
			panic(unsupported("place: * of non-pointer"))
		}
		return p, typeAtPath(p.Root, p.Path)
	case ESel:
		// base is a pointer value, or itself a place of struct type
		var base PtrV
		var bt types.Type
		if inner, ok := x.X.(ESel); ok {
			// try as place first when the inner selector denotes a struct-typed field
			func() {
				defer func() {
					if r := recover(); r != nil {
						if _, ok := r.(unsupported); !ok {
							panic(r)
						}
					}
				}()
				v := ex.eval(inner, st, env)
				if _, isPtr := v.T.Underlying().(*types.Pointer); isPtr {
					base, bt = v.V.(PtrV), v.T.Underlying().(*types.Pointer).Elem()
				}
			}()
			if bt == nil {
				base, bt = ex.placeOf(inner, st, env)
			}
		} else {
			v := ex.eval(x.X, st, env)
			pt, ok := v.T.Underlying().(*types.Pointer)
			if ok {
				base, bt = v.V.(PtrV), pt.Elem()
			} else if id, isID := x.X.(EIdent); isID {
				// a struct-typed variable: its cell (captured variable or local)
				cp, ct, found := ex.placeOfIdent(id.Name, env)
				if !found {
					panic(unsupported("place: " + id.Name + " is neither a pointer nor an addressable variable"))
				}
				base, bt = cp, ct
			} else {
				panic(unsupported("place: selector base is not a pointer"))
			}
		}
		sty, ok := bt.Underlying().(*types.Struct)
		if !ok {
			panic(unsupported("place: field of non-struct"))
		}
		idx, ft := fieldIndex(sty, x.Name)
		if idx == nil {
			panic(unsupported("place: no field " + x.Name))
		}
		np := base
		np.Path = append(append([]int(nil), base.Path...), idx...)
		return np, ft
	case EIdent:
		if cp, ct, found := ex.placeOfIdent(x.Name, env); found {
			return cp, ct
		}
	}
	panic(unsupported(fmt.Sprintf("place: unsupported lvalue %v", e)))
}

// placeOfIdent: the cell of a captured variable or of a local variable, by name.
func (ex *Exec) placeOfIdent(name string, env *Env) (PtrV, types.Type, bool) {
	for _, fr := range []*Frame{env.frame(), ex.top} {
		if fr == nil {
			continue
		}
		for i, fv := range fr.fn.FreeVars {
			if fv.Name() == name {
				return fr.free[i].(PtrV), fv.Type().(*types.Pointer).Elem(), true
			}
		}
		for v, rv := range fr.regs {
			if a, ok := v.(*ssa.Alloc); ok && a.Comment == name {
				if p, ok := rv.(PtrV); ok {
					return p, a.Type().(*types.Pointer).Elem(), true
				}
			}
		}
	}
	return PtrV{}, nil, false
}

// yield: in a function marked `pragma concurrent yes`, other goroutines may run between any two
// atomic actions; the shared ghost state is havocked subject to the declared rely relation, so only
// facts that are stable under the rely survive a yield point.
func (ex *Exec) yield() {
	fc := ex.top.contract
	if fc == nil || fc.Pragmas["concurrent"] != "yes" || len(fc.Shared) == 0 || ex.inYield {
		return
	}
	ex.inYield = true
	defer func() { ex.inYield = false }()
	pre := ex.st.clone()
	for _, g := range fc.Shared {
		gt, ok := ex.specs.GhostFields[g]
		if !ok {
			panic(unsupported("shared: unknown ghost field " + g))
		}
		key := "ghost<" + g + ">"
		srt := ArrSort(SInt, specSort(gt, ex))
		ex.heapGet(key, srt)
		ex.st.heap[key] = ex.vc.Fresh("Hy."+key, srt)
		ex.noteHeapWrite(key)
	}
	// the rely speaks about the function under contract, also while an inlined callee is running
	savedFr := ex.fr
	ex.fr = ex.top
	env := ex.topEnv()
	ex.fr = savedFr
	env.old = pre
	for _, r := range fc.Rely {
		ex.vc.Assume(ex.st.pc, ex.evalBool(r.E, ex.st, env), "rely")
	}
}

// onceDo: (*sync.Once).Do(f) as one atomic step: runs f iff the Once has not fired yet.
func (ex *Exec) onceDo(c *ssa.CallCommon, args []Value, pos token.Pos) Value {
	o := ex.scalarOf(args[0])
	key := "ghost<done>"
	srt := ArrSort(SInt, SBool)
	h := ex.heapGet(key, srt)
	was := ex.vc.Define("oncedone", Sel(h, o))
	ex.stubsUsed["(*sync.Once).Do [built in: runs f iff not done, then done]"] = true
	base := ex.st
	// branch 1: not yet done: run f
	s1 := base.clone()
	s1.pc = ex.vc.Define("pc", And(base.pc, Not(was)))
	ex.st = s1
	fv, ok := args[1].(FuncV)
	if !ok || fv.Fn == nil {
		panic(unsupported("Once.Do with a non-literal function"))
	}
	saveY := ex.inYield
	ex.inYield = true // f runs inside the atomic step
	ex.inlineCall(c, fv, nil, pos, ex.findContract(fv.Fn))
	ex.inYield = saveY
	ex.hStore1(key, srt, o, TTrue)
	s1 = ex.st
	s2 := base.clone()
	s2.pc = ex.vc.Define("pc", And(base.pc, was))
	ex.st = ex.mergeStates([]*State{s1, s2})
	return TupleV{}
}

// guardModifies: a callee that writes a location declared `guarded ... by mu` needs mu held.
func (ex *Exec) guardModifies(items []modItem, callee string, pos token.Pos) {
	if ex.top == nil || ex.top.contract == nil || len(ex.top.contract.Guarded) == 0 || ex.inYield {
		return
	}
	for _, g := range ex.top.contract.Guarded {
		for _, it := range items {
			if it.level < 1 || !strings.Contains(it.keyPrefix, g.Label) {
				continue
			}
			env := ex.topEnv()
			env.fr = ex.fr
			mu := ex.eval(g.E, ex.st, env)
			r := ex.scalarOf(mu.V)
			h := ex.heapGet("ghost<held>", ArrSort(SInt, SBool))
			ex.vc.Oblige("lock", "write "+g.Label+" by "+callee, ex.st.pc, Sel(h, r), ex.posString(pos))
			break
		}
	}
}

// runCallback: `pragma callback <param> <n>`: the library calls the function value <param> any number
// of times with two indices in [0, n). It is executed ONCE symbolically with arbitrary in-range
// arguments in the caller's state (so its own safety, frame and lock obligations are generated in
// context); then everything it wrote is havocked, keeping (justified by the frame obligation just
// generated for an arbitrary call) the locations that existed at entry outside `modifies`.
func (ex *Exec) runCallback(fc *FuncContract, spec string, env *Env, pos token.Pos) {
	f := strings.Fields(spec)
	if len(f) != 2 {
		panic(unsupported("pragma callback: want '<param> <count-param>'"))
	}
	cbv, ok := env.vars[f[0]]
	if !ok {
		panic(unsupported("pragma callback: no parameter " + f[0]))
	}
	fv, ok := cbv.V.(FuncV)
	if !ok || fv.Fn == nil {
		panic(unsupported("pragma callback: the callback is not a function literal"))
	}
	n := sc(env.vars[f[1]].V)
	a := ex.vc.Fresh("cb.i", SInt)
	b := ex.vc.Fresh("cb.j", SInt)
	ex.vc.Assume(ex.st.pc, And(Le(I(0), a), Lt(a, n), Le(I(0), b), Lt(b, n)), "callback arguments in range")
	before := map[string]Term{}
	for k, v := range ex.st.heap {
		before[k] = v
	}
	savedPC := ex.st.pc
	var cbinv []Clause
	if ex.top != nil && ex.top.contract != nil {
		cbinv = ex.top.contract.CbInv
	}
	// callback invariant: must hold when the library function is entered
	for i, c := range cbinv {
		g := ex.evalBool(c.E, ex.st, nil)
		ex.vc.Oblige("cbinv-entry", clauseName(c, i), ex.st.pc, g, ex.posString(pos))
		ex.vc.Assume(ex.st.pc, g, "")
	}
	ex.inlineCall(nil, fv, []Value{Sc{a}, Sc{b}}, pos, ex.findContract(fv.Fn))
	// frame of one arbitrary call
	ex.frameCheck(ex.st, "callback "+f[0], "frame", ex.posString(pos))
	var changed []string
	for k, v := range ex.st.heap {
		if old, ok := before[k]; !ok || old.S != v.S {
			changed = append(changed, k)
		}
	}
	sort.Strings(changed)
	havocChanged := func() []string {
		var hk []string
		for _, k := range changed {
			srt := ex.heapSort[k]
			if srt == "" || strings.HasPrefix(k, "ghost<") {
				continue
			}
			ex.st.heap[k] = ex.vc.Fresh("Hcb."+k, srt)
			ex.noteHeapWrite(k)
			hk = append(hk, k)
		}
		return hk
	}
	if len(cbinv) > 0 {
		// inductive step: from ANY state the earlier calls may have left (what one call changes is
		// havocked, the invariant assumed), one more call with arbitrary in-range arguments keeps it
		ex.st.pc = savedPC
		hk0 := havocChanged()
		ex.assumeFrame(ex.st, hk0)
		for _, c := range cbinv {
			ex.vc.Assume(ex.st.pc, ex.evalBool(c.E, ex.st, nil), "callback invariant")
		}
		a2 := ex.vc.Fresh("cb.i", SInt)
		b2 := ex.vc.Fresh("cb.j", SInt)
		ex.vc.Assume(ex.st.pc, And(Le(I(0), a2), Lt(a2, n), Le(I(0), b2), Lt(b2, n)), "callback arguments in range")
		ex.inlineCall(nil, fv, []Value{Sc{a2}, Sc{b2}}, pos, ex.findContract(fv.Fn))
		for i, c := range cbinv {
			g := ex.evalBool(c.E, ex.st, nil)
			ex.vc.Oblige("cbinv-keep", clauseName(c, i), ex.st.pc, g, ex.posString(pos))
		}
	}
	hk := havocChanged()
	ex.assumeFrame(ex.st, hk)
	ex.st.pc = savedPC
	// after any number of calls the invariant holds
	for _, c := range cbinv {
		ex.vc.Assume(ex.st.pc, ex.evalBool(c.E, ex.st, nil), "callback invariant")
	}
}
