package main

import (
	"bytes"
	"encoding/json"
	"fmt"
	"os"
	"os/exec"
	"path/filepath"
	"strings"
	"time"
)

// Bounded stand-ins: functions outside the verifier's reach (transcendental float code).
// Labelled bounded, never counted as proved.

type boundedViolation struct{ name, reason string }

type boundedResult struct {
	info       map[string]interface{}
	violations []boundedViolation
}

var boundedRunners = map[string]func(tier string, seed int64, repo string) []boundedResult{}

func runBounded(id, tier string, seed int64, repo string) []boundedResult {
	if f, ok := boundedRunners[id]; ok {
		return f(tier, seed, repo)
	}
	return nil
}

func init() {
	boundedRunners["C01"] = boundedPacers
}

// boundedPacers runs /verif/bounded/pacer_bounded_test.go inside package lib through an overlay.
func boundedPacers(tier string, seed int64, repo string) []boundedResult {
	src := filepath.Join(verifDir, "bounded", "pacer_bounded_test.go")
	dir := filepath.Join(repo, "lib")
	tmp, _ := os.MkdirTemp("", "govc-bounded-")
	defer os.RemoveAll(tmp)
	ov := map[string]map[string]string{"Replace": {filepath.Join(dir, "zz_govc_bounded_test.go"): src}}
	ovb, _ := json.Marshal(ov)
	ovFile := filepath.Join(tmp, "overlay.json")
	os.WriteFile(ovFile, ovb, 0o644)
	to := "120s"
	if tier == "thorough" {
		to = "1200s"
	}
	cmd := exec.Command("go", "test", "-overlay", ovFile, "-v", "-vet=off", "-count=1", "-timeout", to, "-run", "^TestGovcBoundedPacers$", ".")
	cmd.Dir = dir
	cmd.Env = append(os.Environ(), "GOFLAGS=-mod=mod", "GOPROXY=off", "GOSUMDB=off", "GOTOOLCHAIN=local", "VERIF_TIER="+tier, fmt.Sprintf("VERIF_SEED=%d", seed))
	var out bytes.Buffer
	cmd.Stdout, cmd.Stderr = &out, &out
	start := time.Now()
	err := cmd.Run()
	res := boundedResult{info: map[string]interface{}{
		"function": "(SinePacer).Pace, (LinearPacer).Pace — schedule clauses E3/E4/E5",
		"label":    "BOUNDED, not proved",
		"bound":    "closed loop on a virtual clock: parameter grid (5 periods x 5 means x 7 amp/mean ratios incl. 0.999 and 1-2^-20 x 4 phases; 4 start rates x 7 slopes) + seeded random parameters; 3 stall histories; 2000 (quick) / 50000 (thorough) steps per run",
		"wall_s":   round3(time.Since(start).Seconds()),
	}}
	sawSummary := false
	for _, l := range strings.Split(out.String(), "\n") {
		if strings.HasPrefix(l, "BOUNDED-SUMMARY ") {
			res.info["summary"] = strings.TrimPrefix(l, "BOUNDED-SUMMARY ")
			sawSummary = true
		}
		if strings.HasPrefix(l, "BOUNDED-VIOLATION ") {
			rest := strings.TrimPrefix(l, "BOUNDED-VIOLATION ")
			key, detail := rest, ""
			if i := strings.Index(rest, " :: "); i >= 0 {
				key, detail = rest[:i], rest[i+4:]
			}
			res.violations = append(res.violations, boundedViolation{name: "pacers#bounded:" + key, reason: "bounded closed-loop run on the real code: " + detail})
		}
	}
	if err != nil || !sawSummary {
		res.violations = append(res.violations, boundedViolation{name: "pacers#bounded:harness", reason: "bounded harness did not complete: " + truncate(out.String(), 1500)})
	}
	return []boundedResult{res}
}
