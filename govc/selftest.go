package main

// Must-fail corpus: deliberately broken bodies that must make a named obligation fail.

import (
	"bytes"
	"flag"
	"fmt"
	"os"
	"os/exec"
	"path/filepath"
	"regexp"
	"sort"
	"strings"
	"sync"
)

type mutantResult struct {
	name string
	ok   bool
	msg  string
}

func runSelftest(args []string) int {
	fs := flag.NewFlagSet("selftest", flag.ExitOnError)
	only := fs.String("only", "", "regular expression filter on patch names")
	dirFlag := fs.String("dir", filepath.Join(verifDir, "selftest"), "corpus directory")
	par := fs.Int("j", 4, "parallel mutants")
	prop := fs.String("p", "", "only mutants of this property")
	seeded := fs.Bool("seeded", false, "also run /verif/seeded")
	fs.Parse(args)
	results := runMutants(*dirFlag, *only, *prop, *par, *seeded)
	bad := 0
	for _, r := range results {
		if r.ok {
			fmt.Printf("selftest ok    %s  %s\n", r.name, r.msg)
		} else {
			bad++
			fmt.Printf("selftest FAIL  %s: %s\n", r.name, r.msg)
		}
	}
	fmt.Printf("selftest: %d mutants, %d not caught\n", len(results), bad)
	if bad > 0 {
		return 1
	}
	return 0
}

// runMutants applies every must-fail patch (optionally only those of one property) to a scratch copy of
// /repo outside /repo and /verif, and checks that the property check reports a violation there.
func runMutants(dir, only, prop string, par int, withSeeded bool) []mutantResult {
	patches, _ := filepath.Glob(filepath.Join(dir, "*.patch"))
	mp, _ := filepath.Glob(filepath.Join(dir, "mustpass", "*.patch"))
	patches = append(patches, mp...)
	if withSeeded {
		sd, _ := filepath.Glob(filepath.Join(verifDir, "seeded", "*", "patch.diff"))
		for _, p := range sd {
			if _, err := os.Stat(filepath.Join(filepath.Dir(p), "patch_rebased.diff")); err == nil {
				p = filepath.Join(filepath.Dir(p), "patch_rebased.diff")
			}
			patches = append(patches, p)
		}
	}
	sort.Strings(patches)
	scratchRoot := os.Getenv("VERIF_SCRATCH")
	if scratchRoot == "" {
		scratchRoot = fmt.Sprintf("/var/tmp/verif-scratch.%d", os.Getpid())
	}
	os.MkdirAll(scratchRoot, 0o755)
	defer os.RemoveAll(scratchRoot)
	self, _ := os.Executable()
	type res = mutantResult
	var mu sync.Mutex
	var results []res
	sem := make(chan struct{}, par)
	var wg sync.WaitGroup
	for i, p := range patches {
		name := strings.TrimSuffix(filepath.Base(p), ".patch")
		isSeeded := strings.HasSuffix(p, ".diff")
		if isSeeded {
			name = "seeded/" + filepath.Base(filepath.Dir(p))
		}
		if only != "" && !regexp.MustCompile(only).MatchString(name) {
			continue
		}
		if prop != "" {
			hdr, _ := os.ReadFile(p)
			match := false
			for _, l := range strings.Split(string(hdr), "\n") {
				if strings.HasPrefix(l, "# property:") && strings.Contains(" "+l[len("# property:"):]+" ", " "+prop+" ") {
					match = true
				}
			}
			if isSeeded {
				match = strings.HasPrefix(filepath.Base(filepath.Dir(p)), prop+"_")
			}
			if !match {
				continue
			}
		}
		wg.Add(1)
		sem <- struct{}{}
		go func(i int, p, name string) {
			defer wg.Done()
			defer func() { <-sem }()
			r := res{name: name}
			defer func() { mu.Lock(); results = append(results, r); mu.Unlock() }()
			data, _ := os.ReadFile(p)
			var props, expects []string
			metaSrc := string(data)
			if strings.HasSuffix(p, ".diff") {
				// seeded change: the property is the id's prefix; any violation of it counts
				id := filepath.Base(filepath.Dir(p))
				metaSrc = "# property: " + strings.SplitN(id, "_", 2)[0] + "\n"
				if m, err := os.ReadFile(filepath.Join(filepath.Dir(p), "check_props.txt")); err == nil {
					metaSrc = "# property: " + strings.TrimSpace(string(m)) + "\n"
				}
			}
			for _, l := range strings.Split(metaSrc, "\n") {
				l = strings.TrimSpace(l)
				if strings.HasPrefix(l, "# property:") {
					props = append(props, strings.Fields(l[len("# property:"):])...)
				}
				if strings.HasPrefix(l, "# expect:") {
					expects = append(expects, strings.TrimSpace(l[len("# expect:"):]))
				}
			}
			if len(props) == 0 {
				r.msg = "no '# property:' header"
				return
			}
			scratch := filepath.Join(scratchRoot, fmt.Sprintf("m%d", i))
			defer os.RemoveAll(scratch)
			if out, err := exec.Command("rsync", "-a", "--exclude", ".git", repoDir+"/", scratch+"/").CombinedOutput(); err != nil {
				r.msg = "rsync: " + string(out)
				return
			}
			cmd := exec.Command("patch", "-p1", "-s", "--no-backup-if-mismatch", "-i", p)
			cmd.Dir = scratch
			if out, err := cmd.CombinedOutput(); err != nil {
				r.msg = "patch does not apply: " + string(out)
				return
			}
			b := exec.Command("go", "build", "./...")
			b.Dir = scratch
			b.Env = append(os.Environ(), "GOFLAGS=-mod=mod", "GOPROXY=off", "GOSUMDB=off", "GOTOOLCHAIN=local")
			if out, err := b.CombinedOutput(); err != nil {
				r.msg = "mutant does not compile: " + string(out)
				return
			}
			caught := false
			var outs []string
			for _, id := range props {
				c := exec.Command(self, "check", "-p", id, "-repo", scratch, "-noreplay", "-out", filepath.Join(scratch, ".govc-out"))
				var buf bytes.Buffer
				c.Stdout, c.Stderr = &buf, &buf
				_ = c.Run()
				o := buf.String()
				outs = append(outs, o)
				if !strings.Contains(o, "VIOLATION property="+id) {
					continue
				}
				if len(expects) == 0 {
					caught = true
				}
				for _, e := range expects {
					if strings.Contains(o, e) {
						caught = true
					}
				}
			}
			if strings.Contains(metaSrc, "# expect: PASS") {
				// must-pass corpus: a behaviour-preserving edit; any VIOLATION line is a false alarm
				alarm := false
				for _, o := range outs {
					if strings.Contains(o, "VIOLATION property=") {
						alarm = true
					}
				}
				r.ok = !alarm
				if alarm {
					r.msg = "FALSE ALARM on a behaviour-preserving edit:\n" + truncate(strings.Join(outs, "\n"), 1500)
				}
				return
			}
			r.ok = caught
			if caught {
				// name the first two obligations that reported it (for the tables in DESIGN.md)
				var by []string
				for _, o := range outs {
					for _, ln := range strings.Split(o, "\n") {
						if strings.HasPrefix(ln, "VIOLATION property=") && len(by) < 2 {
							f := strings.Fields(ln)
							if len(f) >= 3 {
								by = append(by, f[1][len("property="):]+":"+strings.TrimSuffix(filepath.Base(strings.TrimPrefix(f[2], "replay=")), ".json"))
							}
						}
					}
				}
				r.msg = strings.Join(by, " ")
			}
			if !caught {
				r.msg = "mutant verifies or fails elsewhere; expected " + strings.Join(expects, " | ") + "\n" + truncate(strings.Join(outs, "\n"), 1500)
			}
		}(i, p, name)
	}
	wg.Wait()
	sort.Slice(results, func(i, j int) bool { return results[i].name < results[j].name })
	return results
}
