package main

// Must-fail corpus: deliberately broken bodies that must make a named obligation fail.

import (
	"bytes"
	"flag"
	"fmt"
	"os"
	"os/exec"
	"path/filepath"
	"sort"
	"strings"
	"sync"
)

func runSelftest(args []string) int {
	fs := flag.NewFlagSet("selftest", flag.ExitOnError)
	only := fs.String("only", "", "substring filter on patch names")
	dirFlag := fs.String("dir", filepath.Join(verifDir, "selftest"), "corpus directory")
	par := fs.Int("j", 4, "parallel mutants")
	fs.Parse(args)
	patches, _ := filepath.Glob(filepath.Join(*dirFlag, "*.patch"))
	more, _ := filepath.Glob(filepath.Join(*dirFlag, "*", "patch.diff"))
	patches = append(patches, more...)
	sort.Strings(patches)
	scratchRoot := os.Getenv("VERIF_SCRATCH")
	if scratchRoot == "" {
		scratchRoot = fmt.Sprintf("/var/tmp/verif-scratch.%d", os.Getpid())
	}
	os.MkdirAll(scratchRoot, 0o755)
	defer os.RemoveAll(scratchRoot)
	self, _ := os.Executable()
	type res struct {
		name string
		ok   bool
		msg  string
	}
	var mu sync.Mutex
	var results []res
	sem := make(chan struct{}, *par)
	var wg sync.WaitGroup
	for i, p := range patches {
		name := strings.TrimSuffix(filepath.Base(p), ".patch")
		if filepath.Base(p) == "patch.diff" {
			name = filepath.Base(filepath.Dir(p))
		}
		if *only != "" && !strings.Contains(name, *only) {
			continue
		}
		wg.Add(1)
		sem <- struct{}{}
		go func(i int, p, name string) {
			defer wg.Done()
			defer func() { <-sem }()
			r := res{name: name}
			defer func() { mu.Lock(); results = append(results, r); mu.Unlock() }()
			data, _ := os.ReadFile(p)
			var props, expects []string
			metaSrc := string(data)
			if filepath.Base(p) == "patch.diff" {
				if m, err := os.ReadFile(filepath.Join(filepath.Dir(p), "expect.txt")); err == nil {
					metaSrc = string(m)
				}
			}
			for _, l := range strings.Split(metaSrc, "\n") {
				l = strings.TrimSpace(l)
				if strings.HasPrefix(l, "# property:") {
					props = append(props, strings.Fields(l[len("# property:"):])...)
				}
				if strings.HasPrefix(l, "# expect:") {
					expects = append(expects, strings.TrimSpace(l[len("# expect:"):]))
				}
			}
			if len(props) == 0 {
				r.msg = "no '# property:' header"
				return
			}
			scratch := filepath.Join(scratchRoot, fmt.Sprintf("m%d", i))
			defer os.RemoveAll(scratch)
			if out, err := exec.Command("rsync", "-a", "--exclude", ".git", repoDir+"/", scratch+"/").CombinedOutput(); err != nil {
				r.msg = "rsync: " + string(out)
				return
			}
			cmd := exec.Command("patch", "-p1", "-s", "-i", p)
			cmd.Dir = scratch
			if out, err := cmd.CombinedOutput(); err != nil {
				r.msg = "patch does not apply: " + string(out)
				return
			}
			b := exec.Command("go", "build", "./...")
			b.Dir = scratch
			b.Env = append(os.Environ(), "GOFLAGS=-mod=mod", "GOPROXY=off", "GOSUMDB=off", "GOTOOLCHAIN=local")
			if out, err := b.CombinedOutput(); err != nil {
				r.msg = "mutant does not compile: " + string(out)
				return
			}
			caught := false
			var outs []string
			for _, id := range props {
				c := exec.Command(self, "check", "-p", id, "-repo", scratch, "-noreplay", "-out", filepath.Join(scratch, ".govc-out"))
				var buf bytes.Buffer
				c.Stdout, c.Stderr = &buf, &buf
				_ = c.Run()
				o := buf.String()
				outs = append(outs, o)
				if !strings.Contains(o, "VIOLATION property="+id) {
					continue
				}
				if len(expects) == 0 {
					caught = true
				}
				for _, e := range expects {
					if strings.Contains(o, e) {
						caught = true
					}
				}
			}
			r.ok = caught
			if !caught {
				r.msg = "mutant verifies or fails elsewhere; expected " + strings.Join(expects, " | ") + "\n" + truncate(strings.Join(outs, "\n"), 1500)
			}
		}(i, p, name)
	}
	wg.Wait()
	sort.Slice(results, func(i, j int) bool { return results[i].name < results[j].name })
	bad := 0
	for _, r := range results {
		if r.ok {
			fmt.Printf("selftest ok    %s\n", r.name)
		} else {
			bad++
			fmt.Printf("selftest FAIL  %s: %s\n", r.name, r.msg)
		}
	}
	fmt.Printf("selftest: %d mutants, %d not caught\n", len(results), bad)
	if bad > 0 {
		return 1
	}
	return 0
}
