package main

// Loading /repo (current working tree) and its contract files.

import (
	"fmt"
	"go/ast"
	"go/token"
	"go/types"
	"os"
	"path/filepath"
	"sort"
	"strings"

	"golang.org/x/tools/go/packages"
	"golang.org/x/tools/go/ssa"
	"golang.org/x/tools/go/ssa/ssautil"
)

type Loader struct {
	fset   *token.FileSet
	pkgs   []*packages.Package
	prog   *ssa.Program
	spkgs  []*ssa.Package
	files  map[*token.File]*ast.File
	src    map[string][]byte
	byName map[string]*types.Package
	funcs  map[string]*ssa.Function // pkgpath::key
	notes  []string
}

const contractFile = "zz_contracts_verif.go"

func Load(repo, verifDir string) (*Loader, *Specs, error) {
	ld := &Loader{files: map[*token.File]*ast.File{}, src: map[string][]byte{}, byName: map[string]*types.Package{}, funcs: map[string]*ssa.Function{}}
	cfg := &packages.Config{Mode: packages.LoadAllSyntax, Dir: repo, BuildFlags: []string{"-tags=verif"}, Tests: false,
		Env: append(os.Environ(), "GOFLAGS=-mod=mod", "GOPROXY=off", "GOSUMDB=off", "GOTOOLCHAIN=local")}
	// contract mirror: if a contract file is missing in the repo, overlay the mirror
	overlay := map[string][]byte{}
	mirror := filepath.Join(verifDir, "contracts")
	_ = filepath.Walk(mirror, func(p string, info os.FileInfo, err error) error {
		if err != nil || info.IsDir() || filepath.Base(p) != contractFile {
			return nil
		}
		rel, _ := filepath.Rel(mirror, p)
		target := filepath.Join(repo, rel)
		m, _ := os.ReadFile(p)
		if cur, err := os.ReadFile(target); err != nil {
			overlay[target] = m
			ld.notes = append(ld.notes, "contract file "+rel+" missing in /repo: mirror loaded through overlay")
		} else if string(cur) != string(m) {
			ld.notes = append(ld.notes, "contract file "+rel+" in /repo differs from the mirror in /verif/contracts (the /repo copy is used)")
		}
		return nil
	})
	if len(overlay) > 0 {
		cfg.Overlay = overlay
	}
	pkgs, err := packages.Load(cfg, "./...")
	if err != nil {
		return nil, nil, err
	}
	var errs []string
	packages.Visit(pkgs, nil, func(p *packages.Package) {
		for _, e := range p.Errors {
			errs = append(errs, e.Error())
		}
	})
	if len(errs) > 0 {
		return nil, nil, fmt.Errorf("load errors:\n%s", strings.Join(errs, "\n"))
	}
	ld.pkgs = pkgs
	prog, spkgs := ssautil.AllPackages(pkgs, ssa.NaiveForm|ssa.InstantiateGenerics)
	prog.Build()
	ld.prog, ld.spkgs = prog, spkgs
	ld.fset = prog.Fset
	specs := NewSpecs()
	packages.Visit(pkgs, nil, func(p *packages.Package) {
		if p.Types != nil {
			if _, ok := ld.byName[p.Types.Name()]; !ok || strings.HasPrefix(p.PkgPath, modPrefix) {
				ld.byName[p.Types.Name()] = p.Types
			}
		}
		for _, f := range p.Syntax {
			tf := ld.fset.File(f.Pos())
			if tf != nil {
				ld.files[tf] = f
			}
		}
	})
	for _, sp := range spkgs {
		if sp == nil || !strings.HasPrefix(sp.Pkg.Path(), modPrefix) {
			continue
		}
		for fn := range ssautil.AllFunctions(prog) {
			_ = fn
			break
		}
	}
	for fn := range ssautil.AllFunctions(prog) {
		pkg := pkgOfFn(fn)
		if pkg == nil || !strings.HasPrefix(pkg.Path(), modPrefix) {
			continue
		}
		ld.funcs[pkg.Path()+"::"+contractKey(fn)] = fn
	}
	// contract files (the /repo copy, or the mirror through the overlay)
	for _, p := range pkgs {
		if !strings.HasPrefix(p.PkgPath, modPrefix) {
			continue
		}
		for _, gf := range p.CompiledGoFiles {
			if filepath.Base(gf) != contractFile {
				continue
			}
			path := gf
			if data, ok := overlay[gf]; ok {
				tmp := filepath.Join(os.TempDir(), fmt.Sprintf("govc-contract-%d-%s.go", os.Getpid(), sanitize(p.PkgPath)))
				_ = os.WriteFile(tmp, data, 0o644)
				path = tmp
				defer os.Remove(tmp)
			}
			sub := NewSpecs()
			if err := sub.ParseSpecFile(path); err != nil {
				return nil, nil, err
			}
			for k, fc := range sub.Funcs {
				fc.File = gf
				specs.Funcs[p.PkgPath+"::"+k] = fc
			}
			for _, k := range sub.Order {
				specs.Order = append(specs.Order, p.PkgPath+"::"+k)
			}
			for k, v := range sub.Stubs {
				specs.Stubs[k] = v
			}
			for k, v := range sub.SFuncs {
				specs.SFuncs[k] = v
			}
			for k, v := range sub.GhostFields {
				specs.GhostFields[k] = v
			}
			specs.Lemmas = append(specs.Lemmas, sub.Lemmas...)
			specs.Axioms = append(specs.Axioms, sub.Axioms...)
			specs.Scan = append(specs.Scan, sub.Scan...)
		}
	}
	// library stubs
	stubFiles, _ := filepath.Glob(filepath.Join(verifDir, "stubs", "*.spec"))
	sort.Strings(stubFiles)
	for _, sf := range stubFiles {
		if err := specs.ParseSpecFile(sf); err != nil {
			return nil, nil, err
		}
	}
	return ld, specs, nil
}

func (ld *Loader) fileOf(p token.Pos) *ast.File {
	tf := ld.fset.File(p)
	if tf == nil {
		return nil
	}
	return ld.files[tf]
}

func (ld *Loader) nodeText(n ast.Node) string {
	tf := ld.fset.File(n.Pos())
	if tf == nil {
		return ""
	}
	data, ok := ld.src[tf.Name()]
	if !ok {
		data, _ = os.ReadFile(tf.Name())
		ld.src[tf.Name()] = data
	}
	a, b := tf.Offset(n.Pos()), tf.Offset(n.End())
	if a < 0 || b > len(data) || a > b {
		return ""
	}
	return string(data[a:b])
}

func (ld *Loader) pkgByName(n string) *types.Package { return ld.byName[n] }
