package main

// Driver: verification of one function against its contract.

import (
	"fmt"
	"go/ast"
	"go/types"
	"os"
	"runtime/debug"
	"sort"
	"strings"

	"golang.org/x/tools/go/ssa"
)

type FuncResult struct {
	Key         string
	Pkg         string
	VC          *VC
	OutOfSubset string // non-empty: reason; the function is not counted as proved
	StubsUsed   []string
	Abstracted  []string       // calls over-approximated (pragma unknowncalls havoc)
	AssumedObls map[string]int // pragma obligations contract: automatic obligations assumed, by kind
	Inlined     []string
	Callees     []string
	Notes       []string
	Contract    *FuncContract
	ParamSyms   map[string]string // input symbol -> description, for replay
	StrNames    map[string]string
	Passes      int
	SafetyOnly  bool
}

func fullKey(pkg, key string) string { return pkg + "::" + key }

// VerifyFunc generates the verification conditions of one function.
func VerifyFunc(ld *Loader, specs *Specs, fk string, safetyOnly bool) (res *FuncResult) {
	parts := strings.SplitN(fk, "::", 2)
	res = &FuncResult{Key: parts[1], Pkg: parts[0], SafetyOnly: safetyOnly}
	fn := ld.funcs[fk]
	fc := specs.Funcs[fk]
	res.Contract = fc
	if fn == nil {
		res.OutOfSubset = "contract target missing: no function " + fk
		return
	}
	if fc == nil {
		if !safetyOnly {
			res.OutOfSubset = "no contract for " + fk
			return
		}
		fc = &FuncContract{Key: parts[1], Loops: map[int]*LoopContract{}, Pragmas: map[string]string{}}
	}
	var prev *Exec
	for pass := 1; pass <= 5; pass++ {
		ex := NewExec(ld, specs, res.Key)
		ex.safetyOnly = safetyOnly
		if fc.Pragmas["obligations"] == "contract" {
			// only contract-derived obligations are proved; panic-freedom of this function and the
			// preconditions of its callees are ASSUMED (listed in the evidence with their counts)
			ex.vc.assumeKinds = map[string]bool{"idx": true, "nil": true, "div": true, "arith": true, "pre": true, "nopanic": true, "fdiv": true, "assert": true}
		}
		ex.closedHeap = fc.Pragmas["closedheap"] == "yes"
		if fc.Pragmas["floats"] == "real" {
			ex.realFloats = true
		}
		if fc.Pragmas["frame"] == "off" {
			ex.noFrame = true
		}
		if prev != nil {
			for k, s := range prev.heapSort {
				ex.heapSort[k] = s
			}
			ex.loopWritesHeap = prev.loopWritesHeap
		}
		ex.discovery = true
		err := runGuarded(func() { ex.verifyBody(fn, fc) })
		res.Passes = pass
		if err != nil {
			res.OutOfSubset = err.Error()
			res.VC = ex.vc
			return
		}
		stable := prev != nil && sameKeys(prev.heapSort, ex.heapSort) && sameWrites(prev.loopWritesSnap, ex.loopWritesHeap)
		ex.loopWritesSnap = snapWrites(ex.loopWritesHeap)
		if stable {
			res.VC = ex.vc
			res.StubsUsed = sortedKeys(ex.stubsUsed)
			res.Abstracted = sortedKeys(ex.abstracted)
			res.AssumedObls = ex.vc.assumedN
			res.Inlined = sortedKeys(ex.inlined)
			res.Callees = sortedKeys(ex.calleesUsed)
			res.Notes = ex.notes
			res.StrNames = ex.strNames
			ex.addHeapModelSyms(fn)
			res.ParamSyms = map[string]string{}
			for i, s := range ex.modelSyms {
				res.ParamSyms[s] = ex.modelLbls[i]
			}
			for _, o := range ex.vc.obls {
				o.ModelOf = append(append([]string(nil), ex.modelSyms...), ex.frameSyms...)
			}
			// struct shapes: a hand-written codec covers exactly the fields it was written for
			for _, sh := range fc.Shapes {
				f := strings.Fields(sh)
				if len(f) < 2 {
					continue
				}
				got := "?"
				if pk := pkgOfFn(fn); pk != nil {
					if obj := pk.Scope().Lookup(f[0]); obj != nil {
						if st, ok := obj.Type().Underlying().(*types.Struct); ok {
							var names []string
							for i := 0; i < st.NumFields(); i++ {
								names = append(names, st.Field(i).Name())
							}
							got = strings.Join(names, " ")
						}
					}
				}
				goal := TTrue
				if got != strings.Join(f[1:], " ") {
					goal = TFalse
				}
				o := ex.vc.Oblige("forbid", "fields-of-"+f[0]+":"+strings.Join(f[1:], ","), TTrue, goal, "struct "+f[0]+" has fields: "+got)
				o.ModelOf = nil
			}
			// forbidden calls: a syntactic obligation over the function and all its closures
			for i, fb := range fc.Forbid {
				kindWord, want := firstWord(fb.Text)
				want = strings.TrimSpace(want)
				found := ""
				var scan func(f *ssa.Function)
				scan = func(f *ssa.Function) {
					for _, b := range f.Blocks {
						for _, in := range b.Instrs {
							if st, ok := in.(*ssa.Store); ok && kindWord == "store" {
								n := chanName(st.Addr)
								if n == want && found == "" {
									found = ex.posString(in.Pos())
								}
							}
							if st, ok := in.(*ssa.Store); ok && kindWord == "write" {
								// a store into any field of an object of the named struct type
								if fa, ok := st.Addr.(*ssa.FieldAddr); ok && found == "" {
									if pt, ok := fa.X.Type().Underlying().(*types.Pointer); ok && typeName(pt.Elem()) == want {
										found = ex.posString(in.Pos())
									}
								}
							}
							if ci, ok := in.(ssa.CallInstruction); ok && kindWord == "call" {
								if n := calleeName(ci.Common()); (n == want || strings.HasSuffix(n, "."+want) || strings.HasSuffix(n, ")."+want)) && found == "" {
									found = ex.posString(in.Pos())
								}
							}
						}
					}
					for _, af := range f.AnonFuncs {
						scan(af)
					}
				}
				scan(fn)
				goal := TTrue
				if found != "" {
					goal = TFalse
				}
				o := ex.vc.Oblige("forbid", clauseName(fb, i)+":"+fb.Text, TTrue, goal, found)
				o.ModelOf = nil
			}
			// anchors must have matched
			for _, at := range fc.Ats {
				if at.Optional {
					for _, a := range at.Actions {
						if a.Kind != "assume" {
							res.OutOfSubset = fmt.Sprintf("anchor %q is optional (x*) but does more than assume", at.Anchor)
						}
					}
					continue
				}
				if at.hits == 0 {
					res.OutOfSubset = fmt.Sprintf("anchor %q matched no instruction", at.Anchor)
				}
				if at.Count > 0 && at.hits > 0 {
					// the contract says how many instructions this anchor stands for (xN): one more or one
					// fewer means code was added or removed that the contract does not describe
					goal := TTrue
					if len(at.sites) != at.Count {
						goal = TFalse
					}
					o := ex.vc.Oblige("anchors", fmt.Sprintf("%s matches exactly %d instructions", at.Anchor, at.Count), TTrue, goal, fmt.Sprintf("matched %d", len(at.sites)))
					o.ModelOf = nil
				}
			}
			return
		}
		for _, at := range fc.Ats {
			at.hits = 0
			at.sites = nil
		}
		prev = ex
	}
	res.OutOfSubset = "heap discovery did not stabilise"
	return
}

func sameKeys(a, b map[string]Sort) bool {
	if len(a) != len(b) {
		return false
	}
	for k := range a {
		if _, ok := b[k]; !ok {
			return false
		}
	}
	return true
}

func snapWrites(m map[string]map[string]bool) map[string]int {
	out := map[string]int{}
	for k, v := range m {
		out[k] = len(v)
	}
	return out
}

func sameWrites(a map[string]int, b map[string]map[string]bool) bool {
	if a == nil || len(a) != len(b) {
		return false
	}
	for k, v := range b {
		if a[k] != len(v) {
			return false
		}
	}
	return true
}

func runGuarded(f func()) (err error) {
	defer func() {
		if r := recover(); r != nil {
			if u, ok := r.(unsupported); ok {
				if os.Getenv("GOVC_DEBUG") != "" {
					fmt.Fprintf(os.Stderr, "unsupported: %s\n%s\n", string(u), debug.Stack())
				}
				err = u
				return
			}
			panic(r)
		}
	}()
	f()
	return nil
}

func (ex *Exec) addModelSyms(label string, v Value) {
	switch x := v.(type) {
	case Sc:
		if !strings.ContainsAny(x.T.S, "( ") {
			ex.modelSyms = append(ex.modelSyms, x.T.S)
			ex.modelLbls = append(ex.modelLbls, label)
		}
	case SliceV:
		for i, t := range []Term{x.Ptr, x.Off, x.Len, x.Cap} {
			ex.modelSyms = append(ex.modelSyms, t.S)
			ex.modelLbls = append(ex.modelLbls, label+[]string{"#ptr", "#off", "#len", "#cap"}[i])
		}
	case StructV:
		for i, f := range x.F {
			ex.addModelSyms(label+"."+x.Typ.Field(i).Name(), f)
		}
	case PtrV:
		if x.Kind == pObj {
			ex.modelSyms = append(ex.modelSyms, x.Ref.S)
			ex.modelLbls = append(ex.modelLbls, label)
		}
	case FuncV:
		if x.Ref.S != "" {
			ex.modelSyms = append(ex.modelSyms, x.Ref.S)
			ex.modelLbls = append(ex.modelLbls, label)
		}
	}
}

func (ex *Exec) verifyBody(fn *ssa.Function, fc *FuncContract) {
	// pre-declare known heap variables
	for _, k := range sortedKeys(ex.heapSort) {
		if strings.HasPrefix(k, "visited<") {
			continue
		}
		name := "H0." + sanitize(k)
		ex.vc.DeclareFun(name, nil, ex.heapSort[k])
		ex.heap0[k] = Term{name, ex.heapSort[k]}
	}
	ex.alloc0 = ex.vc.Fresh("alloc0", SInt)
	ex.vc.AssumeRaw(fmt.Sprintf("(>= %s 1)", ex.alloc0.S), "")
	for _, k := range sortedKeys(ex.heap0) {
		ex.ghostZeroAxiom(k, ex.heap0[k].S, ex.heapSort[k])
	}
	st := &State{pc: TTrue, cells: map[cellKey]Value{}, heap: map[string]Term{}, ghost: map[string]Term{}, alloc: ex.alloc0}
	ex.st = st
	ex.frames++
	fr := &Frame{id: ex.frames, fn: fn, regs: map[ssa.Value]Value{}, contract: fc}
	ex.top, ex.fr = fr, fr
	for _, p := range fn.Params {
		v := ex.freshValue("in."+p.Name(), p.Type(), TTrue)
		fr.params = append(fr.params, v)
		ex.paramVals[p.Name()] = v
		ex.addModelSyms(p.Name(), v)
	}
	for _, p := range fn.FreeVars {
		v := ex.freshValue("fv."+p.Name(), p.Type(), TTrue)
		if pv, ok := v.(PtrV); ok {
			ex.vc.Assume(TTrue, Not(Eq(pv.Ref, I(0))), "captured variables live in allocated cells")
		}
		fr.free = append(fr.free, v)
		ex.paramVals[p.Name()] = v
		ex.addModelSyms("&"+p.Name(), v)
	}
	for _, g := range fc.Ghosts {
		srt := specSort(g.Type, ex)
		var init Term
		if g.Init != nil {
			init = sc(ex.eval(g.Init, st, ex.topEnv()).V)
		} else if srt == SBool {
			init = TFalse
		} else if srt == SStr {
			init = ex.strConst("")
		} else if srt == SInt {
			init = I(0)
		} else {
			init = ex.vc.Fresh("ghost0."+g.Name, srt)
		}
		st.ghost[g.Name] = init
	}
	ex.entry = st.clone()
	// global axioms over spec functions
	for _, ax := range ex.specs.Axioms {
		func() {
			defer func() {
				if r := recover(); r != nil {
					if _, ok := r.(unsupported); !ok {
						panic(r)
					}
				}
			}()
			g := ex.evalBool(ax.E, st, &Env{vars: map[string]TV{}, pkg: pkgOfFn(fn)})
			ex.vc.Assume(TTrue, g, "axiom")
		}()
	}
	for _, u := range fc.Uses {
		found := false
		for _, l2 := range ex.specs.Lemmas {
			if l2.Name == u {
				found = true
				g := ex.evalBool(l2.C.E, st, &Env{vars: map[string]TV{}, pkg: pkgOfFn(fn)})
				ex.vc.Assume(TTrue, g, "lemma "+u)
				ex.lemmasUsed[u] = true
			}
		}
		if !found {
			panic(unsupported("uses: unknown lemma " + u))
		}
	}
	if !ex.safetyOnly || true {
		for _, r := range fc.Requires {
			g := ex.evalBool(r.E, st, nil)
			ex.vc.Assume(TTrue, g, "requires")
		}
		for _, a := range fc.Assumes {
			g := ex.evalBool(a.E, st, nil)
			ex.vc.Assume(TTrue, g, "named assumption")
		}
	}
	if len(fc.Requires) > 0 {
		ex.vc.Cover("requires-satisfiable", TTrue, TTrue, "")
	}
	if len(fc.Modifies) > 0 {
		ex.topMods = ex.evalModifies(fc.Modifies, st, ex.topEnv())
	}
	exits := ex.runBody(fr, st)
	if len(exits) == 0 {
		return
	}
	var sts []*State
	var conds []Term
	for _, e := range exits {
		sts = append(sts, e.st)
		conds = append(conds, e.st.pc)
	}
	final := ex.mergeStates(sts)
	ex.st = final
	sig := fn.Signature
	env := ex.topEnv()
	// postconditions may mention locals that are still alive at every exit (by name), after
	// parameters (entry values) and ghost variables
	for i := 0; i < sig.Results().Len(); i++ {
		var vs []Value
		for _, e := range exits {
			vs = append(vs, e.res[i])
		}
		v := ex.mergeValues(conds, vs, "result")
		rt := sig.Results().At(i).Type()
		n := sig.Results().At(i).Name()
		if i < len(fc.Returns) && fc.Returns[i] != "" {
			n = fc.Returns[i]
		}
		if n != "" && n != "_" {
			env.vars[n] = TV{v, rt}
		}
		env.vars[fmt.Sprintf("result%d", i)] = TV{v, rt}
		if sig.Results().Len() == 1 {
			env.vars["result"] = TV{v, rt}
		}
	}
	if !ex.safetyOnly {
		for i, e := range fc.Ensures {
			g := ex.evalBool(e.E, final, env)
			ex.vc.Oblige("post", clauseName(e, i), final.pc, g, fmt.Sprintf("%s:%d", shortPath(fc.File), e.Line))
			// vacuity: the antecedent of an implication must be reachable
			if b, ok := e.E.(EBin); ok && b.Op == "==>" {
				a := ex.evalBool(b.L, final, env)
				ex.vc.Cover("post-antecedent:"+clauseName(e, i), final.pc, a, "")
			}
		}
		ex.frameCheck(final, "exit", "frame", "")
		ex.vc.Cover("exit-reachable", final.pc, TTrue, "")
		// every single return statement must be reachable under the contract's assumptions: an unreachable
		// one means contradictory assumptions on that path (its postconditions would hold vacuously) - or code
		// the preconditions really exclude, which the contract then has to say (`deadexit <source text>`)
		if len(exits) > 1 && os.Getenv("GOVC_NO_EXIT_COVERS") == "" {
			// name every return by its source text and its ordinal among the returns with the same text
			// (in source order), so that the names survive unrelated edits
			type rx struct {
				e   exitInfo
				txt string
			}
			var rs []rx
			for _, e := range exits {
				txt := squeeze(ex.srcText(e.pos, func(n ast.Node) bool { _, ok := n.(*ast.ReturnStmt); return ok }))
				if len(txt) > 60 {
					txt = txt[:60]
				}
				if txt == "" {
					txt = "end of function"
				}
				rs = append(rs, rx{e, txt})
			}
			sort.SliceStable(rs, func(i, j int) bool { return rs[i].e.pos < rs[j].e.pos })
			seen := map[string]int{}
			for _, r := range rs {
				seen[r.txt]++
				name := r.txt
				if seen[r.txt] > 1 {
					name = fmt.Sprintf("%s (occurrence %d)", r.txt, seen[r.txt])
				}
				dead := false
				for _, d := range fc.DeadExits {
					if d == name {
						dead = true
					}
				}
				if !dead {
					ex.vc.Cover("return-reachable:"+name, r.e.st.pc, TTrue, ex.posString(r.e.pos))
				}
			}
		}
	}
}

// ---------------------------------------------------------------------------
// lemmas: pure SMT goals over spec functions

func VerifyLemma(ld *Loader, specs *Specs, lm *Lemma) *FuncResult {
	res := &FuncResult{Key: "lemma " + lm.Name}
	ex := NewExec(ld, specs, "lemma "+lm.Name)
	ex.alloc0 = I(1)
	ex.st = &State{pc: TTrue, cells: map[cellKey]Value{}, heap: map[string]Term{}, ghost: map[string]Term{}, alloc: I(1)}
	err := runGuarded(func() {
		for _, ax := range specs.Axioms {
			g := ex.evalBool(ax.E, ex.st, &Env{vars: map[string]TV{}})
			ex.vc.Assume(TTrue, g, "axiom")
		}
		for _, u := range lm.Uses {
			for _, l2 := range specs.Lemmas {
				if l2.Name == u {
					g := ex.evalBool(l2.C.E, ex.st, &Env{vars: map[string]TV{}})
					ex.vc.Assume(TTrue, g, "lemma "+u)
				}
			}
		}
		env := &Env{vars: map[string]TV{}}
		body := lm.C.E
		// skolemise the outer universal quantifier: the goal becomes quantifier-free
		for {
			q, ok := body.(EQuant)
			if !ok || !q.Forall {
				break
			}
			for _, v := range q.Vars {
				srt := specSort(v.Type, ex)
				t := tInt
				switch srt {
				case SBool:
					t = tBool
				case SStr:
					t = tString
				case SF64, SReal:
					t = tFloat
				}
				c := ex.vc.Fresh("sk."+v.Name, srt)
				env.vars[v.Name] = TV{Sc{c}, t}
				ex.modelSyms = append(ex.modelSyms, c.S)
				ex.modelLbls = append(ex.modelLbls, v.Name)
			}
			body = q.Body
		}
		g := ex.evalBool(body, ex.st, env)
		o := ex.vc.Oblige("lemma", lm.Name, TTrue, g, fmt.Sprintf("%s:%d", shortPath(lm.File), lm.C.Line))
		o.ModelOf = ex.modelSyms
	})
	res.VC = ex.vc
	if err != nil {
		res.OutOfSubset = err.Error()
	}
	return res
}

func describeType(t types.Type) string { return typeName(t) }

func sortStrings(s []string) []string { sort.Strings(s); return s }

// addHeapModelSyms names, for the replay, the entry-heap contents reachable from the parameters:
// fields of pointed-to structs (one level of pointers, nested structs) and the first elements of slices.
func (ex *Exec) addHeapModelSyms(fn *ssa.Function) {
	const maxElems = 6
	alias := func(label string, t Term) {
		if t.Sort != SInt && t.Sort != SBool && t.Sort != SStr {
			return
		}
		ex.vc.fresh++
		name := fmt.Sprintf("mv!%d", ex.vc.fresh)
		d := &decl{name: name, kind: dDef, text: fmt.Sprintf("(define-fun %s () %s %s)", name, t.Sort, t.S), deps: symbolsOf(t.S), seq: 0}
		ex.vc.decls = append(ex.vc.decls, d)
		ex.vc.byName[name] = d
		ex.modelSyms = append(ex.modelSyms, name)
		ex.modelLbls = append(ex.modelLbls, label)
	}
	entry := ex.entry
	var walk func(label string, v Value, t types.Type, depth int)
	walk = func(label string, v Value, t types.Type, depth int) {
		if depth > 3 {
			return
		}
		switch x := v.(type) {
		case StructV:
			st := t.Underlying().(*types.Struct)
			for i, f := range x.F {
				walk(label+"."+st.Field(i).Name(), f, st.Field(i).Type(), depth)
			}
		case SliceV:
			et := elemTypeOf(t)
			if et == nil {
				return
			}
			if label != "" && !strings.Contains(label, "#") {
				// header parts of slices inside heap objects are not plain symbols: alias them
				alias(label+"#len", x.Len)
				alias(label+"#cap", x.Cap)
				alias(label+"#ptr", x.Ptr)
			}
			for k := 0; k < maxElems; k++ {
				p := PtrV{Kind: pElem, Ref: x.Ptr, Idx: Idx(x.Off, I(int64(k))), Root: et}
				var ev Value
				if err := runGuarded(func() { ev = ex.loadIn(entry, p) }); err != nil {
					return
				}
				switch e := ev.(type) {
				case Sc:
					alias(fmt.Sprintf("%s[%d]", label, k), e.T)
				default:
					walk(fmt.Sprintf("%s[%d]", label, k), ev, et, depth+1)
				}
			}
		case PtrV:
			if x.Kind != pObj || len(x.Path) != 0 {
				return
			}
			pt, ok := t.Underlying().(*types.Pointer)
			if !ok || !transparentStruct(pt.Elem()) {
				return
			}
			var pv Value
			if err := runGuarded(func() { pv = ex.loadIn(entry, x) }); err != nil {
				return
			}
			walk(label, pv, pt.Elem(), depth+1)
		case Sc:
			if label != "" {
				alias(label, x.T)
			}
		}
	}
	for i, p := range fn.Params {
		switch v := ex.top.params[i].(type) {
		case PtrV:
			walk(p.Name(), v, p.Type(), 0)
		case SliceV:
			et := elemTypeOf(p.Type())
			if et == nil {
				continue
			}
			for k := 0; k < maxElems; k++ {
				pp := PtrV{Kind: pElem, Ref: v.Ptr, Idx: Idx(v.Off, I(int64(k))), Root: et}
				var ev Value
				if err := runGuarded(func() { ev = ex.loadIn(entry, pp) }); err != nil {
					break
				}
				if e, ok := ev.(Sc); ok {
					alias(fmt.Sprintf("%s[%d]", p.Name(), k), e.T)
				}
			}
		case StructV:
			// struct passed by value: slices inside it
			st := p.Type().Underlying().(*types.Struct)
			for fi, f := range v.F {
				if sv, ok := f.(SliceV); ok {
					walk(p.Name()+"."+st.Field(fi).Name(), sv, st.Field(fi).Type(), 1)
				}
			}
		}
	}
}
